#!/usr/bin/env python3
"""Regenerates MANIFEST.json from the table below (kept in one place so that it stays valid)."""
import json
import os

HERE = os.path.dirname(os.path.abspath(__file__))

CLAIMED = {
    "C01": dict(
        text="Machine-checked theorems (Coq 8.16, closed under the global context) over an executable rational model of "
             "the per-carrier balance: for every carrier, component list, number of steps and both load-matching modes, "
             "every step record satisfies produced = used + exported, exported = nEPB + grid, EPB use = used + delivered, "
             "all flows >= 0, used <= min(use, production), exp_nEPB <= nEPB use, and the same per source; annual sums "
             "likewise. The model is tied to /repo on every run by a correspondence check (model vs implementation on "
             "generated buildings, all per-step vectors of the cone) and the identities are also evaluated directly on "
             "implementation outputs to produce replayable counter-examples.",
        design_ref="DESIGN.md §6 C01",
        note="Trusted: Coq kernel + vm_compute; hand-written model tied by differential testing (generator-bounded, "
             "tolerance 2e-5 of case scale); Q models f32 (rounding not modelled); runner and Python driver.",
        technique="Coq proof over Qc model (induction over steps/components, lra/nra scalar lemmas) + model/impl correspondence + oracle search"),
    "C02": dict(
        text="Machine-checked refinement: every per-step vector, annual value, weighted-energy term (step A, step B, "
             "delivered, exported A, AB), service share and the derived cogeneration factor reported by the model "
             "equals the corresponding closed expression of Spec/Iso52000.v, a flat statement of EN ISO 52000-1 (2), "
             "(9)-(14), (20)-(28), (32), E.3.6 over the component list (theorems C02_flows, C02_weighted, "
             "C02_cogeneration_factor, C02_building); the model reproduces the published results of ISO/TR 52000-2 "
             "J1-J9 by evaluation (Golden.v). Tie to the code: every numeric field of EnergyPerformance is compared "
             "with the model on generated buildings x factor sets (regulatory and all-distinct user files) x k_exp x "
             "area x load matching; a disagreement is reported as a violation with the shrunk input.",
        design_ref="DESIGN.md §6 C02",
        note="Trusted: Coq kernel + vm_compute; my reading of the standard in Spec/Iso52000.v (anchored by J1-J9); "
             "model tied to code by differential testing within tolerance; Q models f32.",
        technique="Coq refinement proof model = flat ISO 52000-1 spec + golden examples by vm_compute + model/impl correspondence on all fields"),
    "C04": dict(
        text="Machine-checked theorems: EPB use by service (per carrier and building), production by source, "
             "produced-and-used energy by source split by service and adding up to the total at every step for values of any "
             "size (C04_used_by_source_total; needed fix c3bd83b: the code had an absolute 1e-3 kWh guard), delivered = grid + on-site + cogeneration input, "
             "exported = grid + nEPB, weighted energy by service = sum over carriers with EPB use, all add up to their "
             "totals for every component list; per-m2 rows are the absolute rows times 1/area = divided by area "
             "(area >= 0.001), same keys; RER values, k_exp, components and the absolute balance do not depend on the "
             "area (C04_area_only: evaluation at area a = evaluation at a' with the area field replaced). Totals over "
             "carriers are sums by definition of the model; that the implementation's accumulators compute them is "
             "checked by correspondence and by recomputing every total from balance_cr on implementation outputs.",
        design_ref="DESIGN.md §6 C04",
        note="Trusted: Coq kernel + vm_compute; hand-written model tied by differential testing; Q models f32.",
        technique="Coq proof (sum exchange over carriers/services/sources, induction over components) + correspondence + recomputation oracle"),
    "C03": dict(
        text="Machine-checked theorems: k_exp enters the model of energy_performance only through the final combination "
             "we_of_parts (theorem C03_k_only: the evaluation at k equals the evaluation at any k' with the k field "
             "replaced), hence flows, derived factors, step A and all partial results are identical for all k; step B is "
             "the affine function A + k(B(1)-A) per carrier, per service, in total and per m2, B(0) = A, and a building "
             "with no export gives the same result for every k. Correspondence on all weighted-energy fields at k in "
             "{0, 1, interior}; the affine law is also evaluated directly on implementation outputs.",
        design_ref="DESIGN.md §6 C03",
        note="Trusted: Coq kernel + vm_compute; hand-written model tied by differential testing; Q models f32.",
        technique="Coq proof (structural factorisation of k_exp, ring on RNC sums) + model/impl correspondence + oracle search"),
    "C05": dict(
        text="Machine-checked theorems over the model of Components::normalize, for every component list and every "
             "iteration order of system ids: normalisation keeps every declared consumption, production and output "
             "component, the metadata and the demands (C05_keeps: the non-auxiliary components of the result are a "
             "permutation of the declared ones plus completion productions of EAMBIENTE/TERMOSOLAR only); the completed "
             "amount of a system is its use where it declares no production and max(0, use - declared) otherwise, step by "
             "step (C05_completion_value); it depends only on that system's components (C05_no_pooling) and is empty for "
             "systems without use; the final sort is a stable permutation ordered by id; completing twice adds nothing "
             "(C05_completion_twice_changes_nothing) and normalising a normalised set returns the very same list "
             "(C05_normalize_idempotent: nothing left to complete, every system's auxiliary components recomputed to the same "
             "components, a sorted list is determined by its per-system blocks; C05_read_components_are_normalized: what the "
             "reader returns is a fixed point). End to end through normalize_data (both completion passes, the auxiliary "
             "reassignment, the sort): in the normalised list the production of an on-site thermal carrier attributed to a system "
             "is, step by step, its declared production plus max(0, use - declared production) of that system "
             "(C05_normalized_production, C05_completed_value). Correspondence: model vs "
             "implementation on un-normalised component sets (serde JSON), multiset equality per system plus order of "
             "non-auxiliary components; the completion rule, 'nothing dropped' and idempotence (normalize twice) are "
             "recomputed on implementation outputs.",
        design_ref="DESIGN.md §6 C05",
        note="Trusted: Coq kernel + vm_compute; model tied by differential testing. Idempotence is exact in the rational model; the implementation recomputes auxiliary shares in f32 (bounded by the differential run). The text-level 'no line is dropped' is the file-level theorem of C18 plus the differential run.",
        technique="Coq proof over normalize model (lists, permutations, stable sort) + model/impl correspondence + recomputation oracle"),
    "C06": dict(
        text="Machine-checked theorems over the model of assign_aux_nepb_to_epb_services: a single-service system gets "
             "all its auxiliaries on that service with unchanged values; for a multi-service system the shares are "
             "|q_s|/sum|q| (non-negative), and at every step with some output the reassigned auxiliaries add up to the "
             "declared amount (C06_conserve); other systems' components are untouched (C06_others_untouched); a "
             "multi-service system with auxiliaries and no output at all is rejected with WrongInput; AUX makes "
             "ELECTRICIDAD a balanced carrier and counts as EPB electricity use. The zero-output-step loss is proved "
             "to exist (C06_zero_output_refuted) and recorded as a known finding. End to end through normalize_data "
             "(completion, the passes of all systems, the stable sort): the auxiliary components of a system add up at each step "
             "to its declared auxiliary energy, or to zero at a step without output energy of a multi-service system "
             "(C06_normalized_aux_total, C06_normalized_aux_conserved: the finding stated for every input). "
             "Correspondence and oracle as for C05.",
        design_ref="DESIGN.md §6 C06",
        note="Trusted: Coq kernel + vm_compute; model tied by differential testing; three fix: commits in /repo "
             "(ccf3680, 5ed34e0, 699eef2); one known finding (zero-output step).",
        technique="Coq proof over aux-assignment model + refutation witness for the known finding + correspondence + conservation oracle"),
    "C07": dict(
        text="Machine-checked theorems over the model of set_user_wfactors + Factors::normalize, with a factor set seen as "
             "its first-match lookup function, for every factor list (any subset of keys, duplicates, any values), every "
             "user RED1/RED2 option and defaults: supplied factors are never changed or removed except the five fixed by "
             "the method, which become (1,0,0); missing step A export factors default to the on-site supply factor and "
             "step B ones to the carrier's grid supply factor; RED1/RED2 follow user > file > default; a prepared set is "
             "complete — energy_performance of ANY component list whose carriers have a grid factor in it never returns "
             "MissingFactor (C07_complete, through an exact analysis of the keys an evaluation looks up); preparing a "
             "prepared set returns the identical list (C07_idempotent, also with the same user values); a set with a carrier "
             "without grid supply factor is rejected with MissingFactor (C07_rejects), every carrier of an accepted set has "
             "one (C07_prepared_carriers_have_grid_factors), and a set that says nothing about electricity is accepted and "
             "stays without electricity (C07_no_electricity_added; fix 1505fba). Correspondence: prepared lists "
             "compared exactly (order and values) with the model; all bullets re-evaluated on implementation outputs, plus "
             "random buildings over each accepted set's carriers.",
        design_ref="DESIGN.md §6 C07",
        note="Trusted: Coq kernel + vm_compute; model tied by exact differential comparison of prepared lists; comments of generated factors ignored.",
        technique="Coq proof (lookup-function refinement of update/ensure, needed-keys analysis, list-level idempotence) + exact model/impl correspondence + oracle"),
    "C08": dict(
        text="Machine-checked theorem C08_invisible: for every component list with non-negative values and no AUX "
             "component of service COGEN (true of every normalised set), every factor list, k_exp, area and load-matching "
             "mode, energy_performance with Factors::strip applied returns the same error or the same carrier balances "
             "as with the full set (so a success never becomes an error). Proof: strip is a filter on keys "
             "(C08_strip_is_a_key_filter), every key an evaluation may look up satisfies the filter (C08_needed_kept), and "
             "weighted_parts only depends on the lookups of those keys; the derived cogeneration factors are computed "
             "from kept keys. The proof attempt exposed a genuine defect (AUX with service COGEN; fixed in d9ddfb3; "
             "counter-example kept as C08_aux_cogen_counterexample). Correspondence: stripped lists compared exactly with "
             "the model; every building evaluated with and without strip on the implementation (all numeric fields, error "
             "kinds, panics).",
        design_ref="DESIGN.md §6 C08",
        note="Trusted: Coq kernel + vm_compute; model tied by differential testing; two fix: commits (aa35b26 strip panic on SALIDA, d9ddfb3).",
        technique="Coq proof (needed-keys congruence of weighted_parts + key-filter lemma) + exact strip correspondence + with/without-strip oracle"),
    "C09": dict(
        text="Machine-checked theorems for every component list with n steps: for every permutation sigma of the steps, "
             "energy_performance of the permuted building returns the same error or, carrier by carrier, the same "
             "weighted parts (hence the same step A/B results, totals, RER), the same structure and the same step "
             "records in permuted order (C09_perm, C09_perm_steps); for every m >= 1, with the values of both layouts in "
             "the domain, subdivision into m equal sub-steps gives the same weighted parts and every step record replaced "
             "by m copies scaled by 1/m, load matching factor unchanged (C09_subdivide; C09_subdivide_any_values: for every "
             "component set with non-negative values, no floor on the values since fix c3bd83b); the derived cogeneration factor "
             "is invariant in both cases (needs the annual-ratio factor, fix 55df7f9); normalisation commutes with both "
             "re-layouts (C09_normalize_perm, C09_normalize_subdivide: completions and reassigned auxiliary components of the "
             "re-laid-out building are the re-laid-out ones), so the statements hold from the declared components "
             "(C09_perm_declared, C09_subdivide_declared). Proofs: homogeneity of the step "
             "functions (Proofs/Homog.v), annual sums invariant under permutation and block repetition, weighted parts "
             "depend on the context only through annual values. Oracle: permuted and subdivided (m in {2,3,4,7}) copies "
             "of each building evaluated by the implementation.",
        design_ref="DESIGN.md §6 C09",
        note="Trusted: Coq kernel + vm_compute; model tied by differential testing; Q models f32.",
        technique="Coq proof (homogeneity + permutation/block-sum lemmas + annual congruence of weighted parts) + metamorphic oracle on the implementation"),
    "C10": dict(
        text="Machine-checked data-level theorems: reordering the components (any permutation), splitting a component "
             "into two with the same tags whose values add up, and renumbering system ids leave energy_performance "
             "unchanged (same error, or the same carrier balances and factors) for every component list; what "
             "normalisation gives a system (completion, auxiliary assignment) does not depend on the order in which the "
             "hash set of ids is iterated, and the final order is fixed by a stable sort; from the declared components: the "
             "normalised list of a reordered list is a permutation of the normalised list, or the same error "
             "(C10_normalize_reorder: per-system sums, any processing order of the systems), hence the same evaluation "
             "(C10_reorder_declared); any injective renumbering of the systems gives the renumbered normalised components in "
             "the order of the new numbers (C10_normalize_rename, C10_rename_declared); one declared component written as two "
             "lines whose values add up normalises to a list with the same tag-selected sums, or to the same error "
             "(C10_normalize_split, C10_split_declared; more generally any two lists with the same per-system sums, kinds and "
             "order of first appearance: C10_normalize_same_system_sums). Text level, over the reader model of "
             "Model/Parse.v (tied to FromStr by the exact correspondence of C16): the reader sees the text only through its "
             "trimmed lines (C10_text_is_read_by_trimmed_lines), so white space around any line (C10_text_whitespace), "
             "blank / comment / header lines anywhere (C10_text_ignored_line), a byte order mark (C10_text_bom) and a CR "
             "before the LF (C10_text_crlf) are not seen, and an accepted data line without id reads as the same component with "
             "'0, ' in front (C10_text_explicit_id0, C10_text_omitted_id_is_zero). PARTIAL: repeated evaluation in "
             "the same or another process (bit-identical results required) are decided by the differential run on the "
             "implementation (every base file rewritten and re-evaluated, all annual fields, outcome kinds and the DHW "
             "fraction compared).",
        design_ref="DESIGN.md §6 C10",
        note="Trusted: Coq kernel + vm_compute; model tied by differential testing. The f32 summation order (hash-map iteration) is not modelled: the repeat-run check observes the implementation.",
        technique="Coq proof (tag-predicate equivalence of component lists) + metamorphic differential run on the implementation"),
    "C11": dict(
        text="Machine-checked theorem C11_energy: for every k > 0 and every component list whose values and scaled "
             "values are in the domain (zero or >= 0.01 kWh), energy_performance of the building with all energies "
             "(components and demands) multiplied by k is the scaled evaluation: same error, or the same structure and "
             "factors with every step record, annual value and weighted part multiplied by k; load matching factors, "
             "service shares, RER, RER_nrb, RER_onst unchanged (C11_energy_any_values: for every component set with non-negative "
             "values, no floor needed since fix c3bd83b); normalisation commutes with the scaling (C11_normalize_scale), so this "
             "holds from the declared components. Area law from C04 (C11_area). An example documents that the former "
             "1e-3 guard no longer bites. Oracle: exact scale factors 2^-6..2^10 and 0.1, 3, 1000, area "
             "factors, incl. the DHW renewable fraction.",
        design_ref="DESIGN.md §6 C11",
        note="Trusted: Coq kernel + vm_compute; model tied by differential testing. Invariance of the DHW fraction under scaling is a differential fact only (thresholds of 0.01 kWh in the fraction).",
        technique="Coq proof (positive homogeneity of step functions lifted to contexts, weighted parts and totals) + metamorphic oracle"),
    "C12": dict(
        text="Machine-checked theorems for every component list: with both electricity sources declared, used_pv = "
             "f*min(pv,u), used_chp = f*min(chp, u-min(pv,u)), cogenerated electricity is used only when the on-site "
             "production of the step is fully allocated, allocations never exceed the EPB use; f_match = 1 without load "
             "matching, equals (x+1/x-1)/(x+1/x) with x = production/use when both are positive and 1 otherwise, lies in "
             "[1/2,1]; load matching never increases the produced energy used on site nor decreases grid delivery (per "
             "step and annually). The priority table of ProdSource::get_priorities is pinned by a theorem. "
             "Correspondence on f_match, per-source production/use vectors, with load matching off and on.",
        design_ref="DESIGN.md §6 C12",
        note="Trusted: Coq kernel + vm_compute; hand-written model tied by differential testing; Q models f32.",
        technique="Coq proof (scalar lemmas by lra/nra/field lifted over steps) + model/impl correspondence + oracle search"),
    "C13": dict(
        text="Machine-checked theorems for every component list with non-negative values (of any size: no floor since fix c3bd83b), k_exp = 0, "
             "both load-matching modes and every factor set with the regulatory structure reg_set (decided by reg_setb, "
             "evaluated in Coq on the four prepared location sets dumped from the compiled code on every run): the "
             "reported primary energy has ren >= 0, nren >= 0, co2 >= 0 — including buildings with cogeneration, by a "
             "cross-carrier argument showing that the resources taken out for exported cogenerated electricity never "
             "exceed the weighted fuel (needs the annual-ratio cogeneration factor, fix 55df7f9) — hence RER = "
             "ren/(ren+nren) lies in [0,1] when the total is positive and is 0 when it is zero; RER_nrb <= RER; "
             "RER_onst >= 0; the full nesting RER_onst <= RER_nrb <= RER for every building that exports no electricity, and "
             "for every building that exports only cogenerated electricity whose fuels are nearby carriers "
             "(C13_nested_nearby_cogeneration). The two hypotheses failing are the two known findings: exported on-site "
             "electricity (C13_nested_refuted: RER_onst = 2) and exported cogeneration from a fuel outside the nearby "
             "perimeter (C13_nearby_negative_refuted: RER_nrb < 0). "
             "The proofs go through a closed form of the step A / step B weighted energy of a carrier under regular "
             "factor sets (Proofs/ClosedForm.v, RerFacts.v).",
        design_ref="DESIGN.md §6 C13",
        note="Trusted: Coq kernel + vm_compute; model tied by differential testing; reg_set of user RED1/RED2 variants relies on non-negative user values; two known findings.",
        technique="Coq proof (closed form of weighted energy, sum exchange over carriers, nra/lra) + refutation witness + correspondence + oracle"),
    "C15": dict(
        text="Executable Coq model of cte::fraccion_renovable_acs_nrb (all four contributions, exclusion tags, thresholds) "
             "with machine-checked theorems for the parts that do not depend on the supply mix: no declared DHW demand -> "
             "error; |demand| < epsilon -> error (also with no DHW consumption, fix 35df073); no DHW consumption and "
             "non-zero demand -> 0; the fraction reads nothing that depends on k_exp (C15_k_independent: same value or "
             "error for every k_exp) nor on the reference area; closed forms: C15_nearby_supply_closed_form (any DHW supply "
             "without electricity, ambient heat or biomass: the renewable part of what solar thermal and district networks "
             "supply, over the demand; C15_solar_boiler), C15_direct_electric_closed_form (on-site electricity used for DHW "
             "over the demand), C15_without_biomass (any supply without biomass — direct electric + PV, heat pumps, solar "
             "thermal, networks, boilers and their combinations: renewable part of the nearby supply plus on-site electricity "
             "used for DHW; C15_heat_pump), C15_biomass_nearby (one biomass kind with nearby carriers only: what the others "
             "do not supply of the demand is attributed to the biomass), C15_biomass_mixed (biomass with a non-nearby "
             "carrier: declared output energy counts), C15_biomass_mixed_without_output (error instead of a number) and "
             "C15_two_biomasses (both kinds: the declared output of each kind weighted with its own renewable fraction; error "
             "without declared output). "
             "PARTIAL: the range [0,1] for consistent demands and the invariance under non-EPB and other services' "
             "non-electric consumption are decided by the differential run only: model vs implementation on every generated "
             "building, and those statements evaluated on implementation outputs.",
        design_ref="DESIGN.md §6 C15",
        note="Trusted: Coq kernel + vm_compute; model tied by differential testing (absolute 5e-4 on the fraction). Partial claim as stated; 'consistent demand' is constructed by the generator.",
        technique="Coq model + theorems for error cases, k/area independence and the closed forms of the canonical mixes + model/impl correspondence + closed-form/invariance oracle"),
    "C19": dict(
        text="Coq decision model of main()'s option handling (Model/Cli.v: resolve over tri-state arguments Absent / "
             "Invalid / Given for k_exp, area, RED1, RED2 on both origins, factors file, -l, CTE_LOCALIZACION). Theorems: "
             "C19_precedence (the value used is the option if given, else the metadata, else the default 1.0 / 0.0 / "
             "(0,1.3,0.3)/none; file > -l > metadata location), C19_refuses (any Invalid or out-of-range value on either "
             "origin, and only those plus a missing factor source, stops the run), C19_exit_codes (65 for bad values, 64 "
             "for no factor source), C19_runs_when_valid, C19_ranges (accepted k in [0,1], area > 0.001). The tie to the "
             "code: the cteepbd binary built from /repo is run on the full lattice {option given/not} x {metadata present/"
             "absent/invalid} with boundary, out-of-range and non-numeric values; exit status, stderr message, absence of a "
             "result file, echoed origin lines, --json k_exp/arearef/RED factors, --oc recorded metadata are compared with "
             "the model's prediction; the reported balance is re-computed through the library at the predicted k_exp and "
             "area. PARTIAL in that clap's own rejections (conflicting options, unknown location given with -l) and the "
             "process exit are observed, not modelled; text is read as the decimal it denotes (boundaries 0, 1, 0.001 exact).",
        design_ref="DESIGN.md §6 C19",
        note="Trusted: Coq kernel + vm_compute; the Python harness that maps command lines/metadata to tri-state arguments (parse oracle: Rust's f32 parser via the runner).",
        technique="Coq decision model + precedence/refusal theorems + binary-level correspondence over the configuration lattice"),
    "C17": dict(
        text="Executable Coq model of the text outputs (Model/Text.v): Rust's {:.N} of f32 values (round half to even on "
             "the exact value), f32 rounding of sums (f32round), escape_xml, the whole XML document (factors, components, "
             "metadata, comments, demands) and the whole plain report (template, sorted tables, DHW indicator). Theorems: "
             "C17_xml_well_formed (the document is in the grammar of Spec/Xml.v for ANY factors, components, comment and "
             "metadata text and figures), C17_escape_any_text (any byte string becomes legal character data), "
             "C17_escape_keeps_clean_text, C17_figures_at_precision (a figure written with d decimals denotes a number "
             "within half a unit of the last decimal), C17_json_rounding, C17_tables_order_independent (table order does "
             "not depend on the visiting order). The tie to the code: to_plain() and to_xml() of the implementation are "
             "compared BYTE FOR BYTE with the model evaluated on the implementation's own figures, on buildings whose "
             "comments and metadata carry XML-special, non-ASCII and control characters; fmt_fixed and f32round are "
             "compared with Rust's formatter and f32 arithmetic. Failing-input search on the implementation's output: "
             "expat well-formedness, every figure of both reports against the result at its precision, JSON parse, JSON "
             "against the result, serde read-back, two processes compared, the files written by the cteepbd binary. "
             "PARTIAL: the JSON writer (serde_json) is not modelled, JSON validity/read-back is decided on the "
             "implementation's output only. One known finding (JSON member order varies between runs).",
        design_ref="DESIGN.md §6 C17",
        note="Trusted: Coq kernel + vm_compute; Spec/Xml.v as the definition of well-formedness; Python's expat and json as oracles for the search.",
        technique="Coq model of formatters + well-formedness/escaping/precision theorems + byte-exact model/impl correspondence + output oracles"),
    "C16": dict(
        text="Coq model of the readers (Model/Parse.v): str::trim / split / splitn / lines, i32 and f32 FromStr (decimal to "
             "nearest f32, overflow to infinity), the record readers of every component kind, demands, metadata, factors, "
             "and the components / factors file readers, in which every indexing and slicing operation of the code is an "
             "explicit bound test whose failure is the outcome PPanic. Theorems: C16_components_reader_never_panics and "
             "C16_factors_reader_never_panics (for EVERY text the outcome is a result, a typed error or a non-finite value, "
             "never PPanic), C16_line_readers_never_panic, C16_meta_reader_guarded (the byte-5 slice is safe exactly under "
             "the callers' prefix test; C16_meta_reader_unguarded shows the test is needed), "
             "C16_accepted_components_have_one_length and C16_normalisation_keeps_the_length (every component set the reader "
             "returns — completed and re-assigned components included — has one number of steps: the precondition of the "
             "length assertions of src/vecops.rs). The tie to the code: model "
             "outcome (exact value, error kind) against FromStr of each record type on valid, corrupted and token-soup "
             "lines, and against the file readers on valid / corrupted / soup files; the panic sites of src/ are enumerated "
             "on every run and compared with the reviewed list panic_sites.json. PARTIAL: the stages after reading "
             "(normalise, strip, balance, DHW fraction, formatters) are total functions in the model, so their panic-freedom "
             "and the process-level behaviour of the binary (exit status 0/1/64/65/73/74, message on stderr, no signal, no "
             "hang under a wall-clock limit) are decided by the in-process and out-of-process fuzz only.",
        design_ref="DESIGN.md §6 C16",
        note="Trusted: Coq kernel + vm_compute; the panic-site scanner and its reviewed list; catch_unwind in the runner.",
        technique="Coq model of the readers with explicit panic outcome + no-panic theorems + exact model/impl correspondence + panic-site enumeration + fuzz of library and binary"),
    "C18": dict(
        text="Coq model of the writers (Display) and readers (FromStr) of every record of the text formats (Model/Parse.v, the "
             "readers are those of C16). Theorems: C18_fields (a line made of clean tokens joined by ', ' and followed by ' # "
             "comment' splits back into exactly these tokens and this comment, for ANY tokens and ANY trimmed comment), "
             "C18_stored_comments_are_trimmed (comments as stored meet that hypothesis), C18_id, C18_figure (a figure written "
             "with d >= 1 decimals reads back as the f32 nearest to the written decimal), and the round trip of each record: "
             "C18_consumption_line, C18_production_line, C18_auxiliary_line (service re-assigned by normalize), "
             "C18_output_line, C18_demand_line, C18_factor_line — same id, tags and comment, every value at the written "
             "precision (with C17_figures_at_precision: within half a unit of the last decimal). C18_empty_values_refuted: a "
             "component without values does not read back (hypothesis v <> []). C18_factors_file: a whole factors file reads "
             "back as the same set. C18_saved_factors_evaluate_the_same: the prepared set simplified for a building (what "
             "--of writes) is accepted again by the preparation, with any defaults, and evaluates the building to the same "
             "carrier balances or the same error (every factor the evaluation looks up is unchanged; fix 1505fba was found "
             "on the way). The tie to the code: Display of the "
             "implementation compared character by character with show_components / show_factors on generated files; the "
             "written factor text parsed by model and implementation; on the implementation: written text read back and "
             "compared (metadata, tags, ids, comments, demands, values at 2 / 3 decimals), the saved files re-evaluated and "
             "compared with the original evaluation within the written precision, the same through cteepbd --oc / --of. "
             "C18_components_file: a whole components file written by Display (metadata, components, demands) is read as "
             "exactly the records written, values at the written precision, which are then normalised again. PARTIAL: what "
             "that second normalisation does to rounded values is decided on the implementation only. Known findings: rounding can create one more automatic "
             "completion; values near the printed precision.",
        design_ref="DESIGN.md §6 C18",
        note="Trusted: Coq kernel + vm_compute; the model's readers are tied to the code by the exact correspondence of C16.",
        technique="Coq model of Display/FromStr + per-record round-trip theorems + char-exact Display correspondence + read-back and re-evaluation oracle"),
    "C14": dict(
        text="Theorems over the balance model, with and without load matching, for one more EL_INSITU production component with "
             "non-negative values appended to ANY component set with non-negative values (no floor on the values since fix c3bd83b): C14_grid_delivered_never_grows, "
             "C14_exported_never_shrinks (total and cogenerated exports), and C14_nren_co2_never_grow: under any factor set "
             "that is regular for the electricity carrier before and after (the regulatory sets are, RerFacts.regular_*), "
             "with non-negative grid and cogeneration factors and k_exp in [0,1], the non-renewable primary energy and the "
             "emissions of the electricity carrier do not grow, in step A and in step B; every regime of a time step is "
             "covered, including the switch of the priority branch caused by the new component (PvFacts.step_prio / "
             "step_pv_only / step_new_pv). C14_building assembles this over the carriers: for every component set, every "
             "regulatory factor set (reg_set), k_exp in [0,1], area and both values of the load matching switch, the building's non-renewable primary energy, "
             "emissions (steps A and B) and grid-delivered energy do not grow. RER at k_exp = 0: "
             "C14_ren_never_shrinks_without_cogeneration + C14_ratio; C14_rer_with_renewable_cogeneration_refuted: the RER "
             "statement is false with renewable-fuelled cogeneration (known finding). The tie to the code: model/implementation correspondence on "
             "the generated bases, and the property itself evaluated on implementation outputs of (building, building + "
             "extra EL_INSITU line) pairs: four regulatory locations, k_exp in [0,1], with and without load matching. "
             "Load matching: C14_load_matching_used_production (g(u,p) = f(p/u) min(u,p) is non-decreasing and 1-Lipschitz "
             "in p), C14_load_matching_cogeneration_used (the cogenerated electricity used in a step, f((pv+chp)/u) "
             "min(chp, u - min(pv,u)), does not grow with pv: the factor is 8u-Lipschitz above the use and decreasing below), "
             "C14_load_matching_carrier (the carrier statements with load matching, cogeneration or not) and "
             "C14_load_matching_without_cogeneration (adds the renewable part).",
        design_ref="DESIGN.md §6 C14",
        note="Trusted: Coq kernel + vm_compute; closed form of the weighted energy (RerFacts.carrier_closed) under 'regular' factor sets; model tied by differential testing.",
        technique="Coq proof (per-step case analysis, annual sums, closed form of weighted energy) + refutation witness + correspondence + metamorphic oracle"),
}

PENDING_REASON = "not claimed yet in this round: model/theorems for this property are still being built (see DESIGN.md §10 order of work)"

ALL = ["C%02d" % i for i in range(1, 20)]


def main():
    checks = []
    for pid in ALL:
        if pid not in CLAIMED:
            continue
        c = CLAIMED[pid]
        checks.append({
            "property_id": pid,
            "quick_cmd": "python3 vp.py check %s --tier quick" % pid,
            "thorough_cmd": "python3 vp.py check %s --tier thorough" % pid,
            "evidence_file": "/verif/evidence/%s.json" % pid,
            "replay_cmd_template": "python3 vp.py replay {path}",
            "engine": "coq-model+correspondence",
            "level_claimed": {"category": "proof", "text": c["text"], "design_ref": c["design_ref"]},
            "level_note": c["note"],
            "technique": c["technique"],
        })
    m = {
        "version": 1,
        "setup_cmd": "python3 vp.py setup",
        "hooks": {
            "guard": "cteepbd_verif",
            "enable": "no source hooks are needed: every observed function and field is public API; checks build /repo's "
                      "working tree as a path dependency of /verif/runner (RUSTFLAGS='--cfg cteepbd_verif' would enable "
                      "hooks if any existed)",
            "baseline_off_cmd": "cd /repo && cargo test --workspace --no-fail-fast --offline",
            "source_commits": [],
            "add_only": True,
        },
        "engines": [{
            "name": "coq-model+correspondence",
            "path": "/verif/coq (Gallina model, proofs, property theorems), /verif/runner (Rust, runs the implementation), "
                    "/verif/vp.py + /verif/lib (driver, generators, comparator, oracles)",
            "serves_properties": sorted(CLAIMED),
            "kind_free_text": "machine-checked proof in Coq 8.16.1 over a hand-written executable model; model tied to "
                              "the code on every run by a correspondence (differential) check; failing-input search "
                              "through executable oracles on implementation outputs",
        }],
        "checks": checks,
        "not_applicable": [{"property_id": p, "reason": PENDING_REASON} for p in ALL if p not in CLAIMED],
        "notes": "fix: commits in /repo are listed in /verif/known_findings.json (fixed entries).",
    }
    with open(os.path.join(HERE, "MANIFEST.json"), "w") as f:
        json.dump(m, f, indent=1)
        f.write("\n")


if __name__ == "__main__":
    main()
