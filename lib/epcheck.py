"""Check flow shared by the properties decided on energy_performance outputs."""
import hashlib
import json
import os
import time
from collections import Counter

from . import core, check, epflow, gen
from .core import log

TRUSTED_BASE = [
    "Coq 8.16.1 kernel and its vm_compute reduction machine (no native_compute)",
    "no axioms: Print Assumptions of every property theorem must answer 'Closed under the global context'",
    "hand-written Gallina model (coq/theories/Model) tied to /repo by the correspondence check of this run "
    "(differential testing: generator-bounded, tolerance 2e-5 relative to the case scale, 1e-4 absolute on ratios)",
    "exact rational arithmetic (Qc) models f32; rounding and summation order are not modelled",
    "Rust runner (/verif/runner) and Python driver (vp.py, lib/*.py): dumping, Gallina printing, comparison",
    "rustc/cargo building /repo's working tree",
]


def corpus_cases(prop):
    """committed minimised past disagreements / interesting inputs, replayed first"""
    d = os.path.join(core.VERIF, "corpus", prop)
    out = []
    if os.path.isdir(d):
        for fn in sorted(os.listdir(d)):
            if fn.endswith(".json"):
                j = json.load(open(os.path.join(d, fn)))
                c = epflow.EpCase("corpus_" + fn[:-5].replace("-", "_"), j["comps"], j["factors"], j.get("user"),
                                  [tuple(e) for e in j["evals"]], strip=j.get("strip", False),
                                  tags=j.get("tags", []) + ["corpus"])
                out.append(c)
    return out


def shrink_text_case(case, fails, max_rounds=60):
    """greedy line removal on a text components case while `fails(case)` keeps returning True"""
    if "text" not in case.comps_spec:
        return case
    lines = case.comps_spec["text"].splitlines()
    best = case
    changed = True
    rounds = 0
    while changed and rounds < max_rounds:
        changed = False
        for i in range(len(lines)):
            rounds += 1
            if rounds >= max_rounds:
                break
            cand_lines = lines[:i] + lines[i + 1:]
            if not any(l and not l.startswith("#") for l in cand_lines):
                continue
            cand = epflow.EpCase(case.cid + "s", {"text": "\n".join(cand_lines) + "\n"}, case.factors_spec,
                                 case.user, case.evals, strip=case.strip, tags=case.tags, want=case.want)
            epflow.run_impl([cand])
            try:
                if fails(cand):
                    lines = cand_lines
                    best = cand
                    changed = True
                    break
            except Exception:
                pass
    return best


def shrink_disagreement(prop, case, select, max_rounds=14):
    """shrink a case on which model and implementation disagree (re-evaluating both)"""
    if "text" not in case.comps_spec:
        return case
    lines = case.comps_spec["text"].splitlines()
    best = case
    rounds = 0
    changed = True
    while changed and rounds < max_rounds:
        changed = False
        for i in range(len(lines)):
            if rounds >= max_rounds:
                break
            cand_lines = lines[:i] + lines[i + 1:]
            if not any(l and not l.startswith("#") for l in cand_lines):
                continue
            rounds += 1
            cand = epflow.EpCase(case.cid + "s%d" % rounds, {"text": "\n".join(cand_lines) + "\n"}, case.factors_spec,
                                 case.user, case.evals, strip=case.strip, tags=case.tags, want=case.want)
            epflow.run_impl([cand])
            if not epflow.impl_inputs_ok(cand):
                continue
            epflow.run_model([cand], prop)
            cb = epflow.compare_case(cand, select)
            if cb and not epflow.model_missing(cb):
                lines = cand_lines
                best = cand
                changed = True
                break
    return best


def run(prop, tier, seed, theorems, select, oracle, nontrivial, gen_force=None, multi_eval=False,
        n_model=None, n_oracle=None, level_note="", extra_stage=None, known_filter=None,
        disagreement_is_violation=False, case_gen=None):
    """known_filter(what, detail, case) -> finding id or None (for recorded known findings)"""
    R = check.Result(prop, tier, seed)
    rng = check.make_rng(prop, seed)
    n_model = n_model or (64 if tier == "quick" else 600)
    n_oracle = n_oracle or (1500 if tier == "quick" else 30000)
    meta = {"coverage": {"checker_cmd": "make -C coq theories/Props/%s.vo && coqc <Print Assumptions> (+ coqchk in thorough tier)" % prop,
                         "trusted_base": TRUSTED_BASE,
                         "rule": "structured random buildings (lib/gen.py) x factor sets x (k_exp, area, load matching); "
                                 "a case is non-trivial if %s; distinct by SHA1 of the runner job" % nontrivial.__doc__},
            "assumptions": [level_note] if level_note else []}
    try:
        core.build_runner()
    except core.BuildError as e:
        R.harness_errors.append(str(e)[-1500:])
        R.broken.append(("build of /repo's working tree failed", str(e)[-800:]))
        return R.finish(meta)

    # 1. proof obligations
    ok, rep = check.proof_obligations(prop, theorems)
    R.proof = rep
    if not ok:
        R.broken.append(("proof obligations", {k: rep.get(k) for k in ("failed", "failing_location", "forbidden_vernacular",
                                                                         "make_log_tail", "assumption_check_error", "assumptions")}))
    if tier == "thorough" and ok:
        cok, axioms, tail = check.coqchk(prop)
        meta["coverage"]["coqchk"] = {"ok": cok, "axioms": axioms}
        if not cok or axioms:
            R.broken.append(("coqchk", {"ok": cok, "axioms": axioms, "tail": tail}))

    # 2. correspondence model <-> implementation, property cone
    # properties stated with a floor on the values (zero or >= 0.01 kWh) keep it; the others also get carriers with a tiny use
    tweak = None if prop in ("C01", "C11") else (lambda r, b: epflow.tiny_use(r, b, 0.1))
    gen_fn = case_gen or (lambda r, k, prefix='c': epflow.gen_cases(r, k, force=gen_force, multi_eval=multi_eval, prefix=prefix, tweak=tweak))
    cases = corpus_cases(prop) + gen_fn(rng, n_model)
    epflow.run_impl(cases)
    errs = epflow.run_model(cases, prop)
    # a shard that hit its time limit is not an error by itself: its unfinished cases are evaluated again below, one by one, and only
    # a case that still has no answer then is reported
    first_pass_errs = list(errs)
    tags = Counter()
    seen = set()
    disagree = []
    for c in cases:
        if not epflow.impl_inputs_ok(c):
            tags["input_rejected_or_panicked"] += 1
            continue
        R.evaluations += len(c.evals)
        bad = epflow.compare_case(c, select)
        if epflow.model_missing(bad):
            # evaluate the model again for this case alone before concluding anything
            epflow.run_model([c], prop)
            bad = epflow.compare_case(c, select)
        if epflow.model_missing(bad):
            tags["model_evaluation_incomplete"] += 1
            R.harness_errors.append("case %s: the model's evaluation did not complete (time limit); case skipped" % c.cid)
            R.harness_errors.extend(first_pass_errs[:3])
            first_pass_errs = []
            continue
        if bad:
            disagree.append((c, bad))
        else:
            R.cases_validated += 1
        for t in c.tags:
            tags[t] += 1
    R.stats["model_vs_impl"] = {"cases": len(cases), "agree": R.cases_validated, "disagree": len(disagree),
                                "tags": dict(tags), "model_shards_cut_short_then_retried": len(errs)}
    for c, bad in disagree[:10]:
        if disagreement_is_violation and ok and len(R.violations) < 2:
            # the model is proved equal to the specification: a disagreement is a counter-example to the property
            small = shrink_disagreement(prop, c, select)
            sbad = epflow.compare_case(small, select)
            if not sbad or epflow.model_missing(sbad):
                small, sbad = c, bad
            payload = small.replay()
            payload.update({"what": "implementation differs from the EN ISO 52000-1 equations (Coq model = specification)",
                            "disagreements": sbad[:12],
                            "how_to_replay": "cd /verif && python3 vp.py replay <this file>; compare the listed paths"})
            R.violations.append(("implementation differs from the specification: " + str(sbad[0].get("path", sbad[0].get("what"))),
                                 payload))
        else:
            R.broken.append(("correspondence model/implementation", {"case": c.cid, "first": bad[:3], "replay": c.replay()}))

    # 3. oracle on implementation outputs: correspondence cases + a larger implementation-only stream
    ocases = list(cases) + gen_fn(rng, n_oracle, prefix="o")
    epflow.run_impl(ocases[len(cases):])
    otags = Counter()
    n_ok = 0
    for c in ocases:
        if not c.impl or "evals" not in c.impl:
            continue
        for i, ev in enumerate(c.impl["evals"]):
            ep = ev.get("ep", {})
            if "ok" not in ep:
                otags["ep_" + (ep.get("err") or ("panic" if "panic" in ep else "?"))] += 1
                continue
            n_ok += 1
            R.evaluations += 1
            h = hashlib.sha1(json.dumps(c.job(), sort_keys=True).encode()).hexdigest()
            nf = core.nonfinite_paths(ep["ok"])
            if nf:
                # no property of the results can hold of a result that is not a number (inputs are finite)
                hits = [("the evaluation of finite inputs returns a value that is not a finite number", {"paths": nf[:6]})]
            else:
                if nontrivial(ep["ok"]) and (h, i) not in seen:
                    seen.add((h, i))
                hits = oracle(c, i, ep["ok"])
            for what, detail in hits:
                kid = known_filter(what, detail, c) if known_filter else None
                if kid:
                    if kid not in R.known_hits:
                        R.known_hits.append(kid)
                    continue
                if len(R.violations) < 3:
                    # shrink before reporting
                    def fails(cc, i=i, what=what, nf=bool(nf)):
                        evs = cc.impl.get("evals", []) if cc.impl else []
                        if i >= len(evs) or "ok" not in evs[i].get("ep", {}):
                            return False
                        if nf or core.nonfinite_paths(evs[i]["ep"]["ok"]):
                            return nf and bool(core.nonfinite_paths(evs[i]["ep"]["ok"]))
                        return any(w == what for w, _ in oracle(cc, i, evs[i]["ep"]["ok"]))
                    small = shrink_text_case(c, fails)
                    payload = small.replay()
                    payload.update({"eval_index": i, "what": what, "detail": detail,
                                    "how_to_replay": "feed runner_job as one JSON line to the runner binary built from "
                                                     "/repo (cd /verif && python3 vp.py replay <this file>)"})
                    R.violations.append((what, payload))
                else:
                    R.violations.append((what, {"case": c.cid}))
                break
        for t in c.tags:
            otags[t] += 1
    R.distinct_nontrivial = len(seen)
    R.stats["oracle_stream"] = {"cases": len(ocases), "evaluations_ok": n_ok, "tags": dict(otags)}
    if cases:
        c0 = next((c for c in cases if epflow.impl_inputs_ok(c)), cases[0])
        R.samples.append({"components_text": c0.comps_spec.get("text", "")[:1500], "factors": c0.factors_spec if "loc" in c0.factors_spec else {"text": c0.factors_spec.get("text", "")[:600]},
                          "evals": c0.evals, "strip": c0.strip})
    if extra_stage:
        extra_stage(R, rng, meta)
    # a generator whose distribution collapsed makes the check meaningless
    if R.cases_validated + len(disagree) < max(4, n_model // 4):
        R.harness_errors.append("too few usable correspondence cases: %d" % (R.cases_validated + len(disagree)))
    return R.finish(meta)
