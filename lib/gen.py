"""Structured random generators: buildings (component files), factor sets, parameters.

Everything is derived from one random.Random instance so that a seed replays exactly.
Values lie on the dyadic grid k/64 (exact in f32 and in decimal text), or are 0.
"""
import random
from fractions import Fraction

from .core import CARRIERS, EPB_SERVICES, LOCS, SOURCES, DESTS, STEPS

FUELS = ["GASNATURAL", "GASOLEO", "GLP", "CARBON", "BIOCARBURANTE", "BIOMASA", "BIOMASADENSIFICADA", "RED1", "RED2"]


def dy(rng, lo=1, hi=64 * 400):
    """a dyadic value k/64 with k in [lo, hi]; never in (0, 0.01)"""
    return Fraction(rng.randint(lo, hi), 64)


def fmt(v):
    """exact decimal text of a dyadic fraction"""
    v = Fraction(v)
    sign = "-" if v < 0 else ""
    a = abs(v)
    d = 0
    while (a * 10 ** d).denominator != 1:
        d += 1
        assert d < 40, v
    n = int(a * 10 ** d)
    s = str(n).rjust(d + 1, "0")
    if d == 0:
        return sign + s + ".0"
    return sign + s[:-d] + "." + s[-d:]


def vec(rng, n, scale=1, pzero=0.15, hi=64 * 400):
    return [Fraction(0) if rng.random() < pzero else dy(rng, 1, hi) * scale for _ in range(n)]


class Building:
    def __init__(self):
        self.lines = []      # (kind, fields) tuples
        self.meta = []
        self.tags = set()    # regimes exercised (for coverage statistics)

    def add(self, kind, **kw):
        self.lines.append((kind, kw))

    def text(self, shuffle_rng=None):
        out = ["#META %s: %s" % kv for kv in self.meta]
        lines = list(self.lines)
        if shuffle_rng:
            shuffle_rng.shuffle(lines)
        for kind, kw in lines:
            vals = ", ".join(fmt(v) for v in kw["values"])
            cm = (" # " + kw["comment"]) if kw.get("comment") else ""
            if kind == "CONSUMO":
                out.append("%d, CONSUMO, %s, %s, %s%s" % (kw["id"], kw["service"], kw["carrier"], vals, cm))
            elif kind == "PRODUCCION":
                out.append("%d, PRODUCCION, %s, %s%s" % (kw["id"], kw["source"], vals, cm))
            elif kind == "AUX":
                out.append("%d, AUX, %s%s" % (kw["id"], vals, cm))
            elif kind == "SALIDA":
                out.append("%d, SALIDA, %s, %s%s" % (kw["id"], kw["service"], vals, cm))
            elif kind == "DEMANDA":
                out.append("DEMANDA, %s, %s%s" % (kw["service"], vals, cm))
        return "\n".join(out) + "\n"


def gen_building(rng, n=None, allow_aux=True, allow_multi_aux=False, allow_out=True, force=None, ratio_only=False):
    """A structured random building. `force`: set of features to force
    ('pv','chp','nepb','hp','solar','aux','lm_regimes')."""
    force = force or set()
    b = Building()
    n = n or rng.choice([1, 1, 2, 3, 3, 12, 12, 12])
    b.n = n
    ids = rng.sample([0, 1, 2, 3, 5, 7, -1, -3, 100], rng.randint(1, 4))
    el_users = []
    ratio_only = ratio_only and n > 2
    RATIOS = [Fraction(0), Fraction(1, 4), Fraction(1, 2), Fraction(1), Fraction(3, 2), Fraction(2), Fraction(3)]

    def pick_id():
        return rng.choice(ids)

    nsys = rng.randint(1, 5)
    kinds = [rng.choice(["elec", "hp", "boiler", "solar", "district", "boiler", "elec"]) for _ in range(nsys)]
    if "hp" in force and "hp" not in kinds:
        kinds.append("hp")
    if "solar" in force and "solar" not in kinds:
        kinds.append("solar")
    for kind in kinds:
        i = pick_id()
        srv = rng.choice(EPB_SERVICES)
        if kind == "elec":
            v = vec(rng, n)
            b.add("CONSUMO", id=i, service=srv, carrier="ELECTRICIDAD", values=v)
            el_users.append(v)
            b.tags.add("elec")
        elif kind == "hp":
            v = vec(rng, n)
            b.add("CONSUMO", id=i, service=srv, carrier="ELECTRICIDAD", values=v)
            el_users.append(v)
            amb = [x * rng.choice([1, 2, 3]) for x in v]
            b.add("CONSUMO", id=i, service=srv, carrier="EAMBIENTE", values=amb)
            r = rng.random()
            if r < 0.12 and not ratio_only:
                # declared production above the use at some steps and below at others
                b.add("PRODUCCION", id=i, source="EAMBIENTE",
                      values=[x * rng.choice([0, Fraction(1, 2), 1, Fraction(3, 2), 2, 3]) for x in amb])
                b.tags.add("amb_mixed")
            elif r < 0.25:      # partial declared production
                b.add("PRODUCCION", id=i, source="EAMBIENTE", values=[x / 2 for x in amb])
                b.tags.add("amb_partial")
            elif r < 0.45:    # surplus declared production (exported)
                b.add("PRODUCCION", id=i, source="EAMBIENTE",
                      values=[x * rng.choice([Fraction(3, 2), 2]) if ratio_only else x + dy(rng, 1, 640) for x in amb])
                b.tags.add("amb_surplus")
            elif r < 0.55 and not ratio_only:    # production declared for another system
                b.add("PRODUCCION", id=i + 11, source="EAMBIENTE", values=vec(rng, n))
                b.tags.add("amb_other_system")
            b.tags.add("hp")
        elif kind == "boiler":
            b.add("CONSUMO", id=i, service=srv, carrier=rng.choice(FUELS), values=vec(rng, n))
            b.tags.add("fuel")
        elif kind == "solar":
            v = vec(rng, n)
            b.add("CONSUMO", id=i, service=srv, carrier="TERMOSOLAR", values=v)
            r = rng.random()
            if r < 0.12 and not ratio_only:
                b.add("PRODUCCION", id=i, source="TERMOSOLAR",
                      values=[x * rng.choice([0, Fraction(1, 2), 1, Fraction(3, 2), 2, 3]) for x in v])
                b.tags.add("solar_mixed")
            elif r < 0.3:
                b.add("PRODUCCION", id=i, source="TERMOSOLAR",
                      values=[x * rng.choice([Fraction(3, 2), 2]) if ratio_only else x + dy(rng, 1, 640) for x in v])
                b.tags.add("solar_surplus")
            elif r < 0.5:
                b.add("PRODUCCION", id=i, source="TERMOSOLAR", values=[x / 4 for x in v])
            b.tags.add("solar")
        elif kind == "district":
            b.add("CONSUMO", id=i, service=srv, carrier=rng.choice(["RED1", "RED2"]), values=vec(rng, n))
            b.tags.add("district")
        if allow_out and rng.random() < 0.3:
            sign = -1 if srv == "REF" and rng.random() < 0.7 else 1
            b.add("SALIDA", id=i, service=srv, values=[sign * x for x in vec(rng, n, pzero=0.05)])
            b.tags.add("out")

    if allow_aux:
        for i in ids:
            if rng.random() < 0.35:
                srvs_of_i = {kw["service"] for k, kw in b.lines if k == "CONSUMO" and kw["id"] == i}
                if len(srvs_of_i) == 1:
                    av = vec(rng, n, hi=64 * 20)
                    b.add("AUX", id=i, values=av)
                    el_users.append(av)
                    b.tags.add("aux")
                elif len(srvs_of_i) > 1 and allow_multi_aux:
                    # multi-service system: needs output energy for its services
                    for srv in sorted(srvs_of_i):
                        if not any(k == "SALIDA" and kw["id"] == i and kw["service"] == srv for k, kw in b.lines):
                            sign = -1 if srv == "REF" else 1
                            b.add("SALIDA", id=i, service=srv, values=[sign * x for x in vec(rng, n, pzero=0.0)])
                    av = vec(rng, n, hi=64 * 20)
                    b.add("AUX", id=i, values=av)
                    el_users.append(av)
                    b.tags.add("aux_multi")

    aux_ids = {kw["id"] for k, kw in b.lines if k == "AUX"}

    def pick_id_noaux():
        # the service assignment of auxiliaries looks at *all* CONSUMO lines of the system (incl. NEPB, COGEN)
        free = [i for i in ids if i not in aux_ids]
        return rng.choice(free) if free else 50

    el_tot = [sum(col) for col in zip(*el_users)] if el_users else [Fraction(0)] * n

    # on-site electricity with a regime relative to the electricity use
    want_pv = "pv" in force or rng.random() < 0.55
    want_chp = "chp" in force or rng.random() < 0.35
    if want_pv:
        regime = rng.choice(["below", "above", "mixed", "zero_some", "equal", "all_zero"])
        pv = []
        for t in range(n):
            u = el_tot[t]
            if regime == "all_zero":
                pv.append(Fraction(0))       # a declared source that produces nothing (a valid input)
            elif ratio_only:
                if regime == "below":
                    pv.append(u * rng.choice(RATIOS[:4]))
                elif regime == "above":
                    pv.append(u * rng.choice(RATIOS[3:]))
                elif regime == "equal":
                    pv.append(u)
                else:
                    pv.append(u * rng.choice(RATIOS))
            elif regime == "below":
                pv.append(u / rng.choice([2, 4, 8]) if u > 0 else Fraction(0))
            elif regime == "above":
                pv.append(u * rng.choice([2, 3]) + dy(rng, 1, 640))
            elif regime == "equal":
                pv.append(u)
            elif regime == "zero_some":
                pv.append(Fraction(0) if rng.random() < 0.5 else dy(rng))
            else:
                pv.append(dy(rng))
        b.add("PRODUCCION", id=pick_id(), source="EL_INSITU", values=pv)
        if rng.random() < 0.2:
            b.add("PRODUCCION", id=pick_id(), source="EL_INSITU",
                  values=[u * rng.choice(RATIOS[:3]) for u in el_tot] if ratio_only else vec(rng, n))
        b.tags.add("pv_" + regime)
    if want_chp:
        chp = [u * rng.choice(RATIOS[:5]) for u in el_tot] if ratio_only else vec(rng, n, pzero=0.2)
        b.add("PRODUCCION", id=pick_id(), source="EL_COGEN", values=chp)
        nf = rng.choice([1, 1, 2])
        for _ in range(nf):
            fuel = rng.choice(["GASNATURAL", "BIOMASA", "GASOLEO", "BIOCARBURANTE", "RED1"])
            b.add("CONSUMO", id=pick_id_noaux(), service="COGEN", carrier=fuel,
                  values=[x * rng.choice([2, 3]) for x in chp])
        b.tags.add("chp")
        if want_pv:
            b.tags.add("pv+chp")
    if "nepb" in force or rng.random() < 0.4:
        cr = rng.choice(["ELECTRICIDAD", "ELECTRICIDAD", "ELECTRICIDAD", "GASNATURAL", "EAMBIENTE", "TERMOSOLAR"])
        b.add("CONSUMO", id=pick_id_noaux(), service="NEPB", carrier=cr, values=vec(rng, n, hi=64 * 100))
        b.tags.add("nepb_" + ("el" if cr == "ELECTRICIDAD" else "other"))
    for srv in ("ACS", "CAL", "REF"):
        if rng.random() < 0.4:
            b.add("DEMANDA", service=srv, values=vec(rng, n, pzero=0.0))
            b.tags.add("demanda")
    if not any(k in ("CONSUMO", "PRODUCCION") for k, _ in b.lines):
        b.add("CONSUMO", id=0, service="ILU", carrier="ELECTRICIDAD", values=vec(rng, n, pzero=0))
    rng.shuffle(b.lines)
    return b


def gen_user_factors_text(rng, carriers=None, full=True):
    """A user factor file in which every key has a distinct value.
    full: every (carrier, RED, SUMINISTRO, A) present plus every export key for exportable carriers."""
    carriers = carriers or CARRIERS
    lines = ["#META CTE_FUENTE: TEST"]
    used = set()

    def val():
        while True:
            v = rng.randint(1, 2999)
            if v not in used:
                used.add(v)
                return "%.3f" % (v / 1000.0)

    rows = []
    for cr in carriers:
        rows.append((cr, "RED", "SUMINISTRO", "A"))
    for cr in ("ELECTRICIDAD", "EAMBIENTE", "TERMOSOLAR"):
        if cr in carriers:
            rows.append((cr, "INSITU", "SUMINISTRO", "A"))
            for dest in ("A_RED", "A_NEPB"):
                for step in ("A", "B"):
                    if full or rng.random() < 0.5:
                        rows.append((cr, "INSITU", dest, step))
    if "ELECTRICIDAD" in carriers and rng.random() < 0.3:
        # user-provided cogeneration export factors (they win over the computed ones)
        for dest in ("A_RED", "A_NEPB"):
            for step in ("A", "B"):
                if rng.random() < 0.5:
                    rows.append(("ELECTRICIDAD", "COGEN", dest, step))
    rng.shuffle(rows)
    for (cr, src, dest, step) in rows:
        lines.append("%s, %s, %s, %s, %s, %s, %s" % (cr, src, dest, step, val(), val(), val()))
    return "\n".join(lines) + "\n"


def gen_factors_spec(rng):
    r = rng.random()
    user = {}
    if rng.random() < 0.3:
        user["red1"] = [rng.randint(0, 1500) / 1000.0, rng.randint(0, 1500) / 1000.0, rng.randint(0, 500) / 1000.0]
    if rng.random() < 0.2:
        user["red2"] = [rng.randint(0, 1500) / 1000.0, rng.randint(0, 1500) / 1000.0, rng.randint(0, 500) / 1000.0]
    if r < 0.6:
        return {"loc": rng.choice(LOCS)}, user
    return {"text": gen_user_factors_text(rng, full=rng.random() < 0.7)}, user


def gen_params(rng):
    k = rng.choice([0, 1, 0.25, 0.5, 0.75, rng.randint(0, 64) / 64.0])
    area = rng.choice([1.0, 1.0, 100.5, 0.001953125, 2.0, 1000.0, 31.25, 100000.0])
    lm = rng.random() < 0.5
    return k, area, lm
