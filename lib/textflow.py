"""Correspondence of the text-output model (coq/theories/Model/Text.v) with the implementation:
number formatting, f32 arithmetic, the plain report and the XML document."""
import json
import re
from fractions import Fraction

from . import core, gen

TEXT_HEADER = """From Coq Require Import String.
From Cteepbd Require Import Model.All Model.Text.
Open Scope string_scope. Open Scope Z_scope. Open Scope list_scope.
Set Printing Depth 1000000.
Set Printing Width 200.
"""


def g_bytes(s):
    """Gallina term of type bytes (list N) for the UTF-8 bytes of a Python string: printable stretches as
    string literals, other bytes as numerals"""
    if s == "":
        return "([] : list N)"
    data = s.encode("utf-8", "surrogatepass") if isinstance(s, str) else s
    parts, cur = [], bytearray()

    def flush():
        if cur:
            parts.append('bs "%s"' % cur.decode("utf-8").replace('"', '""'))
            cur.clear()
    i = 0
    # keep whole UTF-8 sequences together: split only at ASCII control bytes
    for byte in data:
        if byte < 32 and byte != 10 or byte == 127:
            flush()
            parts.append("[%d%%N]" % byte)
        else:
            cur.append(byte)
    try:
        flush()
    except UnicodeDecodeError:
        return "([" + "; ".join("%d%%N" % x for x in data) + "] : list N)"
    return "(" + " ++ ".join(parts) + ")%list"


def g_meta(ml):
    return "([" + "; ".join("mkMeta %s %s" % (g_bytes(k), g_bytes(v)) for k, v in ml) + "] : list Meta)"


def g_energy_b(e):
    vals = core.gql([core.frac_of_json(v) for v in e["values"]])
    cm = g_bytes(e.get("comment", ""))
    k = e["kind"]
    if k == "Used":
        return "EUsed (%d) %s %s %s %s" % (e["id"], e["carrier"], e["service"], vals, cm)
    if k == "Prod":
        return "EProd (%d) %s %s %s" % (e["id"], core.COQ_PRODSOURCE[e["source"]], vals, cm)
    if k == "Aux":
        return "EAux (%d) %s %s %s" % (e["id"], e["service"], vals, cm)
    return "EOut (%d) %s %s %s" % (e["id"], e["service"], vals, cm)


def g_components_b(c):
    data = "([" + ";\n    ".join(g_energy_b(e) for e in c["data"]) + "] : list Energy)"
    return "(mkComponents %s %s %s)" % (g_meta(c["meta"]), data, core.g_needs(c["needs"]))


def g_factors_b(f):
    fl = "([" + ";\n    ".join(
        "mkFactor %s %s %s %s (mkRNC %s %s %s) %s" % (
            x["carrier"], core.COQ_SOURCE[x["source"]], x["dest"], core.COQ_STEP[x["step"]],
            core.gq(core.frac_of_json(x["ren"])), core.gq(core.frac_of_json(x["nren"])), core.gq(core.frac_of_json(x["co2"])),
            g_bytes(x.get("comment", ""))) for x in f["wdata"]) + "] : list Factor)"
    return "(mkFactors %s %s)" % (g_meta(f["wmeta"]), fl)


def g_rows(flat):
    return "([" + ";\n ".join('("%s", %s)' % (k, core.gq(v)) for k, v in flat.items()) + "] : list (string * Qc))"


NEG_ZERO = re.compile(r"-(0\.0+|0)(?![0-9.])")


def canon_zero(s):
    """the sign of a zero is not modelled: '-0.00' reads '0.00' on both sides"""
    return NEG_ZERO.sub(r"\1", s)


DIFF_RE = re.compile(r"=\s*(None|Some\s*\(\s*(\d+)%?N?\s*,\s*(None|Some\s+\d+%?N?)\s*,\s*(None|Some\s+\d+%?N?)\s*\))", re.S)


def parse_diff(text):
    """-> None (equal) | (index, a, b) | 'unparsed'"""
    m = DIFF_RE.search(text or "")
    if not m:
        return "unparsed"
    if m.group(1) == "None":
        return None
    return (int(m.group(2)), m.group(3), m.group(4))


SPECIAL_SNIPPETS = ["<", ">", "&", "\"", "'", "\\", "&amp;", "<!--", "-->", "]]>", "ñ", "é€", "日本", "\x01", "\x0b", "\x1f", "\x7f",
                    "￾", "￿", "\U0001f600", "a<b>c", "x & y", "\\\"", "<?xml", "\t", "%", ";", "--"]


def special_text(rng, maxlen=4):
    words = ["caldera", "ACS", "sistema 1", "bomba", "PV"]
    parts = []
    for _ in range(rng.randint(1, maxlen)):
        parts.append(rng.choice(SPECIAL_SNIPPETS) if rng.random() < 0.6 else rng.choice(words))
    return " ".join(parts).strip()


def render_case_text(rng, nsteps=None, plain_comments=False):
    """components text with metadata and comments carrying XML-special, non-ASCII and control characters"""
    b = gen.gen_building(rng, n=nsteps or rng.choice([1, 2, 3, 12]), allow_aux=True, allow_multi_aux=False, allow_out=True)
    for kind, kw in b.lines:
        if rng.random() < 0.6:
            c = "comentario" if plain_comments else special_text(rng)
            kw["comment"] = c.replace("#", "")
    if rng.random() < 0.8:
        for _ in range(rng.randint(1, 3)):
            key = rng.choice(["CTE_NOMBRE", "Autor", "CTE_X<", "k&v", "ñ"])
            b.meta.append((key, "valor" if plain_comments else special_text(rng)))
    # demands (per m2 figures of the report)
    have = {kw.get("service") for k, kw in b.lines if k == "DEMANDA"}
    for srv in ("ACS", "CAL", "REF"):
        if srv not in have and rng.random() < 0.5:
            b.add("DEMANDA", service=srv, values=gen.vec(rng, b.n))
    # values that exercise rounding: ties at the printed precision, large and tiny figures
    if rng.random() < 0.5:
        kind, kw = rng.choice(b.lines)
        kw["values"] = [rng.choice([Fraction(1, 8), Fraction(3, 8), Fraction(5, 1000), Fraction(15, 1000), Fraction(25, 10),
                                    Fraction(123456789, 10), Fraction(1, 1000), Fraction(999995, 1000), Fraction(5, 100)])
                        for _ in kw["values"]]
    return b.text(), b
