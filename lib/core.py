"""Shared machinery of the cteepbd verification driver.

- building the correspondence runner and the Coq development (under flock),
- running implementation jobs (Rust runner) and model cases (coqc + vm_compute),
- converting values between f32 (as exact rationals), Gallina terms and JSON,
- flattening and comparing results, writing evidence and replay files.

Python standard library only.
"""
import fcntl
import hashlib
import json
import os
import re
import subprocess
import sys
import time
from fractions import Fraction

VERIF = os.path.dirname(os.path.dirname(os.path.abspath(__file__)))
REPO = os.environ.get("VERIF_REPO", "/repo")
CACHE = os.path.join(VERIF, ".cache")
TARGET = os.path.join(CACHE, "target")
COQDIR = os.path.join(VERIF, "coq")
GEN = os.path.join(COQDIR, "theories", "Gen")
EVIDENCE = os.path.join(VERIF, "evidence")
REPLAYS = os.path.join(VERIF, "replays")
RUNNER_BIN = os.path.join(TARGET, "debug", "cteepbd-verif-runner")
CLI_BIN = os.path.join(TARGET, "debug", "cteepbd")
NCPU = min(16, os.cpu_count() or 1)

CARRIERS = ["EAMBIENTE", "BIOCARBURANTE", "BIOMASA", "BIOMASADENSIFICADA", "CARBON", "ELECTRICIDAD",
            "GASNATURAL", "GASOLEO", "GLP", "RED1", "RED2", "TERMOSOLAR"]
SERVICES = ["ACS", "CAL", "REF", "VEN", "ILU", "NEPB", "COGEN"]
EPB_SERVICES = ["ACS", "CAL", "REF", "VEN", "ILU"]
PRODSOURCES = ["EL_INSITU", "EL_COGEN", "TERMOSOLAR", "EAMBIENTE"]
SOURCES = ["RED", "INSITU", "COGEN"]
DESTS = ["SUMINISTRO", "A_RED", "A_NEPB"]
STEPS = ["A", "B"]
LOCS = ["PENINSULA", "BALEARES", "CANARIAS", "CEUTAMELILLA"]

COQ_PRODSOURCE = {"EL_INSITU": "EL_INSITU", "EL_COGEN": "EL_COGEN", "TERMOSOLAR": "PS_TERMOSOLAR",
                  "EAMBIENTE": "PS_EAMBIENTE"}
COQ_SOURCE = {"RED": "RED", "INSITU": "INSITU", "COGEN": "SRC_COGEN"}
COQ_STEP = {"A": "STEP_A", "B": "STEP_B"}


def log(*a):
    print(*a, file=sys.stderr, flush=True)


# --------------------------------------------------------------------------- locking / building

class Lock:
    def __init__(self, name="lock"):
        os.makedirs(CACHE, exist_ok=True)
        self.path = os.path.join(CACHE, name)

    def __enter__(self):
        self.f = open(self.path, "w")
        fcntl.flock(self.f, fcntl.LOCK_EX)
        return self

    def __exit__(self, *a):
        fcntl.flock(self.f, fcntl.LOCK_UN)
        self.f.close()


def cargo_env():
    env = dict(os.environ)
    env["CARGO_NET_OFFLINE"] = "true"
    env["CARGO_TARGET_DIR"] = TARGET
    return env


def build_runner():
    """(Re)build the runner and the cteepbd binary from REPO's current working tree."""
    with Lock("cargo.lock"):
        rdir = os.path.join(VERIF, "runner")
        # the runner depends on cteepbd by path; point it at REPO
        cargo_toml = os.path.join(rdir, "Cargo.toml")
        txt = open(cargo_toml).read()
        want = 'cteepbd = { path = "%s" }' % REPO
        new = re.sub(r'cteepbd = \{ path = "[^"]*" \}', want, txt)
        if new != txt:
            open(cargo_toml, "w").write(new)
        lock_src = os.path.join(REPO, "Cargo.lock")
        lock_dst = os.path.join(rdir, "Cargo.lock")
        if not os.path.exists(lock_dst):
            open(lock_dst, "w").write(open(lock_src).read())
        t0 = time.time()
        p = subprocess.run(["cargo", "build", "--offline", "--quiet"], cwd=rdir, env=cargo_env(),
                           capture_output=True, text=True)
        if p.returncode != 0:
            # retry with a fresh lock file (dependency set of REPO may have changed)
            open(lock_dst, "w").write(open(lock_src).read())
            p = subprocess.run(["cargo", "build", "--offline", "--quiet"], cwd=rdir, env=cargo_env(),
                               capture_output=True, text=True)
        if p.returncode != 0:
            raise BuildError("cargo build of the runner failed:\n" + p.stderr[-4000:])
        return time.time() - t0


def build_cli():
    with Lock("cargo.lock"):
        p = subprocess.run(["cargo", "build", "--offline", "--quiet", "--bin", "cteepbd",
                            "--manifest-path", os.path.join(REPO, "Cargo.toml")],
                           env=cargo_env(), capture_output=True, text=True)
        if p.returncode != 0:
            raise BuildError("cargo build of cteepbd failed:\n" + p.stderr[-4000:])


class BuildError(Exception):
    pass


def coq_make(targets=None, timeout=3000):
    """Full .vo build of the requested targets (default: everything in _CoqProject)."""
    with Lock("coq.lock"):
        if not os.path.exists(os.path.join(COQDIR, "Makefile")) or \
                os.path.getmtime(os.path.join(COQDIR, "Makefile")) < os.path.getmtime(os.path.join(COQDIR, "_CoqProject")):
            subprocess.run(["coq_makefile", "-f", "_CoqProject", "-o", "Makefile"], cwd=COQDIR, check=True,
                           capture_output=True)
        cmd = ["timeout", str(timeout), "make", "-j%d" % NCPU]
        if targets:
            cmd += targets
        p = subprocess.run(cmd, cwd=COQDIR, capture_output=True, text=True)
        return p.returncode, p.stdout + p.stderr


# --------------------------------------------------------------------------- implementation runs

def run_jobs(jobs, timeout=600):
    """Run jobs through the Rust runner, in NCPU parallel processes. Returns results by job id order."""
    if not jobs:
        return []
    for i, j in enumerate(jobs):
        j.setdefault("id", i)
    nproc = min(NCPU, max(1, len(jobs) // 8))
    chunks = [jobs[i::nproc] for i in range(nproc)]
    procs = []
    for ch in chunks:
        p = subprocess.Popen([RUNNER_BIN], stdin=subprocess.PIPE, stdout=subprocess.PIPE,
                             stderr=subprocess.DEVNULL, text=True)
        procs.append((p, ch))
    import threading
    outs = [None] * len(procs)

    data_of = ["".join(json.dumps(j) + "\n" for j in ch) for ch in chunks]     # fails here, in the caller, on a job that is not JSON

    def feed(i, p, ch):
        data = data_of[i]
        try:
            outs[i] = p.communicate(data, timeout=timeout)[0]
        except subprocess.TimeoutExpired:
            p.kill()
            outs[i] = ""
    ths = [threading.Thread(target=feed, args=(i, p, ch)) for i, (p, ch) in enumerate(procs)]
    [t.start() for t in ths]
    [t.join() for t in ths]
    res = {}
    for out in outs:
        for line in (out or "").split("\n"):      # not splitlines(): U+0085, U+2028 ... occur inside JSON strings
            k = line.find("@@RESULT@@")
            if k >= 0:
                r = json.loads(line[k + 10:])
                res[r.get("id")] = r
    return [res.get(j["id"], {"id": j["id"], "runner_missing": True}) for j in jobs]


# --------------------------------------------------------------------------- numbers

def frac_of_json(x):
    """Exact rational of a number emitted by the runner (f32 widened to f64), or None if non finite."""
    if isinstance(x, str):
        return None
    return Fraction(x)


def f32_round(x):
    """nearest f32 of a Python float / Fraction, as exact Fraction"""
    import struct
    return Fraction(struct.unpack("f", struct.pack("f", float(x)))[0])


def gq(fr):
    fr = Fraction(fr)
    return "(Q (%d) %d)" % (fr.numerator, fr.denominator)


def gql(vals):
    return "(QL [" + "; ".join("((%d), %d%%positive)" % (Fraction(v).numerator, Fraction(v).denominator) for v in vals) + "])"


def gstr(s):
    """Gallina term (list N) of the code points of a Python string"""
    return "[" + "; ".join("%d%%N" % ord(ch) for ch in s) + "]"


def g_energy(e, with_comment=False):
    vals = gql([frac_of_json(v) for v in e["values"]])
    cm = gstr(e.get("comment", "")) if with_comment else "[]"
    k = e["kind"]
    if k == "Used":
        return "EUsed (%d) %s %s %s %s" % (e["id"], e["carrier"], e["service"], vals, cm)
    if k == "Prod":
        return "EProd (%d) %s %s %s" % (e["id"], COQ_PRODSOURCE[e["source"]], vals, cm)
    if k == "Aux":
        return "EAux (%d) %s %s %s" % (e["id"], e["service"], vals, cm)
    if k == "Out":
        return "EOut (%d) %s %s %s" % (e["id"], e["service"], vals, cm)
    raise ValueError(k)


def g_needs(nd):
    def o(v):
        return "None" if v is None else "(Some %s)" % gql([frac_of_json(x) for x in v])
    return "(mkNeeds %s %s %s)" % (o(nd.get("ACS")), o(nd.get("CAL")), o(nd.get("REF")))


def g_components(c, with_comment=False):
    data = "([" + ";\n    ".join(g_energy(e, with_comment) for e in c["data"]) + "] : list Energy)"
    return "(mkComponents [] %s %s)" % (data, g_needs(c["needs"]))


def g_factor(f):
    return "mkFactor %s %s %s %s (mkRNC %s %s %s) []" % (
        f["carrier"], COQ_SOURCE[f["source"]], f["dest"], COQ_STEP[f["step"]],
        gq(frac_of_json(f["ren"])), gq(frac_of_json(f["nren"])), gq(frac_of_json(f["co2"])))


def g_factors(fl):
    return "([" + ";\n    ".join(g_factor(f) for f in fl) + "] : list Factor)"


def finite_components(c):
    for e in c["data"]:
        if any(isinstance(v, str) for v in e["values"]):
            return False
    for k in ("ACS", "CAL", "REF"):
        v = c["needs"].get(k)
        if v is not None and any(isinstance(x, str) for x in v):
            return False
    return True


# --------------------------------------------------------------------------- model runs (coqc)

CASE_HEADER = """From Coq Require Import String.
From Cteepbd Require Import Model.All.
Open Scope string_scope. Open Scope Z_scope. Open Scope list_scope.
Set Printing Depth 1000000.
Set Printing Width 200.
"""

ROW_RE = re.compile(r'\(\s*"([^"]*)",\s*\(?\s*(-?\d+)\s*\)?,\s*(\d+)\)')


def run_coq_cases(prop, cases, timeout=1200, header=CASE_HEADER):
    """cases: list of (case_id, gallina_expression_of_type_outcome_or_any).
    Every expression is evaluated with vm_compute in its own shard file; returns {case_id: text}."""
    os.makedirs(GEN, exist_ok=True)
    if not cases:
        return {}, []
    # items of one case (same id prefix before the first '.') share definitions: keep them in one shard
    groups = {}
    for item in cases:
        groups.setdefault(str(item[0]).split(".")[0], []).append(item)
    glist = list(groups.values())
    nshard = min(8, max(1, len(glist)))
    shards = [[it for g in glist[i::nshard] for it in g] for i in range(nshard)]
    procs = []
    tag = "%s_%d" % (prop, os.getpid())
    for si, sh in enumerate(shards):
        path = os.path.join(GEN, "cases_%s_%d.v" % (tag, si))
        with open(path, "w") as f:
            f.write(header)
            for item in sh:
                if len(item) == 3:
                    cid, defs, expr = item
                    f.write("\n" + defs + "\n")
                else:
                    cid, expr = item
                f.write('\nEval vm_compute in ("@@CASE %s").\n' % cid)
                f.write("Eval vm_compute in (%s).\n" % expr)
                f.write('Eval vm_compute in ("@@END %s").\n' % cid)
        env = dict(os.environ)
        env["OCAMLRUNPARAM"] = "s=8M,o=200"   # fewer heap resizes: parallel coqc is page-fault bound here
        p = subprocess.Popen(["timeout", str(timeout), "coqc", "-noglob", "-Q", os.path.join(COQDIR, "theories"),
                              "Cteepbd", path], stdout=subprocess.PIPE, stderr=subprocess.PIPE, text=True,
                             cwd=GEN, env=env)
        procs.append((p, path))
    out = {}
    errors = []
    for p, path in procs:
        so, se = p.communicate()
        if p.returncode != 0:
            errors.append("%s: exit %d: %s" % (os.path.basename(path), p.returncode, se[-2000:]))
        parts = re.split(r'=\s*"@@CASE ([^"]*)"\s*:\s*string', so)
        for i in range(1, len(parts), 2):
            # a case counts only if its end marker was printed: the output of a shard that was killed (time limit, memory) stops in
            # the middle of a value, and a truncated value must not be mistaken for an answer of the model
            m = re.search(r'=\s*"@@END %s"\s*:\s*string' % re.escape(parts[i]), parts[i + 1])
            if m:
                out[parts[i]] = parts[i + 1][:m.start()]
            else:
                errors.append("%s: the evaluation of case %s was cut short (no end marker): ignored" % (os.path.basename(path), parts[i]))
        base = os.path.basename(path)[:-2]
        for fn in os.listdir(GEN):
            if fn.startswith(base + ".") or fn.startswith("." + base + "."):
                try:
                    os.remove(os.path.join(GEN, fn))
                except OSError:
                    pass
    return out, errors


def parse_outcome(text):
    """-> ('ok', {path: Fraction}) | ('err', kind) | ('?', text)"""
    m = re.search(r'OutErr\s+"([A-Za-z:0-9]+)"', text)
    if m:
        return ("err", m.group(1))
    if "OutOk" in text:
        rows = {}
        for k, n, d in ROW_RE.findall(text):
            rows[k] = Fraction(int(n), int(d))
        return ("ok", rows)
    return ("?", text[:500])


# --------------------------------------------------------------------------- flatten / compare

def flatten(v, prefix=""):
    """flatten the runner's JSON dump to {path: Fraction | str}"""
    out = {}
    if isinstance(v, dict):
        for k, x in v.items():
            out.update(flatten(x, prefix + "/" + k if prefix else k))
    elif isinstance(v, list):
        for i, x in enumerate(v):
            out.update(flatten(x, prefix + "/" + str(i) if prefix else str(i)))
    elif v is None:
        pass
    elif isinstance(v, bool):
        out[prefix] = v
    elif isinstance(v, (int, float)):
        out[prefix] = Fraction(v)
    else:
        out[prefix] = v
    return out


NUMERIC_EP_PREFIXES = ("k_exp", "arearef", "balance_cr/", "balance/", "balance_m2/", "rer")
RATIO_RE = re.compile(r"(^rer|/f_match/)")


def ep_scale(impl_flat):
    """magnitude scale of a case: max |value| over the absolute balance (at least 1)"""
    s = Fraction(1)
    for k, v in impl_flat.items():
        if isinstance(v, Fraction) and (k.startswith("balance/") or k.startswith("balance_cr/")):
            a = abs(v)
            if a > s:
                s = a
    return s


def nonfinite_paths(ep_ok):
    """paths of the implementation's result whose value is not a finite number (the runner writes NaN / inf as text)"""
    out = []
    for k, v in flatten(ep_ok).items():
        if k.startswith(("components", "wfactors")):
            continue
        if isinstance(v, str) and v.strip().lower().lstrip("+-") in ("nan", "inf", "infinity"):
            out.append(k)
    return out


def compare_ep(impl_ok, model_rows, select=None, rel=Fraction(2, 100000), ratio_abs=Fraction(1, 10000)):
    """Compare the implementation's EP dump (runner JSON, 'ok' part) with the model rows.
    select: optional predicate on path. Returns list of (path, impl, model) disagreements."""
    fi = {k: v for k, v in flatten(impl_ok).items()
          if k.startswith(NUMERIC_EP_PREFIXES) and not k.startswith(("components", "wfactors"))
          and not k.endswith("/carrier")}
    scale = ep_scale(fi)
    area = fi.get("arearef", Fraction(1))
    # conditioning of the RER ratios: an absolute error e on ren/nren moves ren/tot by about e(1+|rer|)/|tot|
    try:
        totb = abs(fi["balance/we/b/0"] + fi["balance/we/b/1"])
    except (KeyError, TypeError):
        totb = Fraction(0)
    rer_extra = Fraction(0)
    noise = rel * scale + Fraction(1, 1000000)
    # a total primary energy within rounding noise of zero (large flows cancelling): the RER values are ratios of noise, in f32 as
    # in any arithmetic of finite precision; they are not compared (C13 is stated for totals above rounding noise)
    rer_ill = totb <= 64 * noise
    if totb > 0:
        rer_extra = 8 * noise * (1 + abs(fi.get("rer", Fraction(0)))) / totb
    bad = []
    keys = set(fi) | set(model_rows)
    for k in sorted(keys):
        if select and not select(k):
            continue
        a = fi.get(k)
        b = model_rows.get(k)
        if a is None and b is None:
            continue
        if (a is not None and not isinstance(a, Fraction)) or (b is not None and not isinstance(b, Fraction)):
            bad.append((k, a, b))
            continue
        # an entry that one side does not list is a zero entry of a map (both sides list the non-zero entries only): where the
        # exact value is a few 1e-14 kWh the f32 value is 0 and the entry is absent; judged like any other value, within tolerance
        missing = a is None or b is None
        a0, b0 = a, b
        a = Fraction(0) if a is None else a
        b = Fraction(0) if b is None else b
        if k.startswith("rer"):
            if rer_ill:
                continue
            tol = ratio_abs + rer_extra
        elif RATIO_RE.search(k):
            tol = ratio_abs
        else:
            sc = scale
            if k.startswith("balance_m2/") and isinstance(area, Fraction) and area > 0:
                sc = scale / area
            tol = rel * sc + Fraction(1, 1000000)
        if abs(a - b) > tol:
            bad.append((k, a0, b0) if missing else (k, a, b))
    return bad


def fstr(x):
    if isinstance(x, Fraction):
        return "%.9g" % float(x)
    return str(x)


# --------------------------------------------------------------------------- evidence / replays

def write_json(path, obj):
    os.makedirs(os.path.dirname(path), exist_ok=True)
    tmp = path + ".tmp%d" % os.getpid()
    with open(tmp, "w") as f:
        json.dump(obj, f, indent=1, ensure_ascii=False, default=lambda o: fstr(o))
        f.write("\n")
    os.replace(tmp, path)


def write_replay(prop, payload):
    os.makedirs(REPLAYS, exist_ok=True)
    h = hashlib.sha1(json.dumps(payload, sort_keys=True, default=str).encode()).hexdigest()[:12]
    path = os.path.join(REPLAYS, "%s-%s.json" % (prop, h))
    write_json(path, payload)
    return path
