"""Executable statements of the properties over implementation outputs (runner dumps).

Used (a) on every correspondence case, (b) to search for a concrete failing input when a
proof obligation or the correspondence no longer checks.  Each oracle returns a list of
(what, detail) tuples; empty = the property holds on this output."""
from fractions import Fraction

from . import core

REL = Fraction(2, 100000)
ABS = Fraction(1, 1000000)


def _tol(scale):
    return REL * scale + ABS


def _fr(x):
    return Fraction(x) if not isinstance(x, str) else None


def _vec(v):
    return [Fraction(x) for x in v]


def carrier_scale(b):
    s = Fraction(1)
    for grp in ("used", "prod"):
        for k, v in b[grp].items():
            if isinstance(v, list):
                for x in v:
                    if not isinstance(x, str):
                        s = max(s, abs(Fraction(x)))
            elif isinstance(v, (int, float)):
                s = max(s, abs(Fraction(v)))
    return s


def oracle_c01(ep):
    """conservation identities and bounds on every carrier and step (property C01)"""
    bad = []
    for cr, b in ep["balance_cr"].items():
        sc = carrier_scale(b)
        tol = _tol(sc)
        n = len(b["used"]["epus_t"])
        u = _vec(b["used"]["epus_t"])
        ne = _vec(b["used"]["nepus_t"])
        p = _vec(b["prod"]["t"])
        used = _vec(b["prod"]["epus_t"])
        ex = _vec(b["exp"]["t"])
        exn = _vec(b["exp"]["nepus_t"])
        exg = _vec(b["exp"]["grid_t"])
        dg = _vec(b["del"]["grid_t"])
        for t in range(n):
            def chk(cond, what):
                if not cond:
                    bad.append((what, {"carrier": cr, "step": t, "u": core.fstr(u[t]), "p": core.fstr(p[t]),
                                       "used": core.fstr(used[t]), "exp": core.fstr(ex[t]),
                                       "exp_nepus": core.fstr(exn[t]), "exp_grid": core.fstr(exg[t]),
                                       "del_grid": core.fstr(dg[t]), "nepus": core.fstr(ne[t])}))
            chk(abs(p[t] - (used[t] + ex[t])) <= tol, "produced != used + exported")
            chk(abs(ex[t] - (exn[t] + exg[t])) <= tol, "exported != to_nEPB + to_grid")
            chk(abs(u[t] - (used[t] + dg[t])) <= tol, "EPB use != used + delivered_grid")
            for name, x in (("produced", p[t]), ("EPB use", u[t]), ("used", used[t]), ("exported", ex[t]),
                            ("exp_nepus", exn[t]), ("exp_grid", exg[t]), ("del_grid", dg[t])):
                chk(x >= -tol, "negative flow: " + name)
            chk(used[t] <= min(u[t], p[t]) + tol, "used > min(EPB use, production)")
            chk(exn[t] <= ne[t] + tol, "exported to nEPB > nEPB use")
        # per source
        srcs = list(b["prod"]["by_src_t"].keys())
        tot_src = [Fraction(0)] * n
        for j in srcs:
            pj = _vec(b["prod"]["by_src_t"][j])
            uj = _vec(b["prod"]["epus_by_src_t"].get(j, [0] * n))
            ej = _vec(b["exp"]["by_src_t"].get(j, [0] * n))
            for t in range(n):
                tot_src[t] += uj[t]
                if abs(pj[t] - (uj[t] + ej[t])) > tol:
                    bad.append(("per-source: produced != used + exported", {"carrier": cr, "source": j, "step": t}))
                if uj[t] < -tol or uj[t] > pj[t] + tol or ej[t] < -tol:
                    bad.append(("per-source bounds", {"carrier": cr, "source": j, "step": t,
                                                      "p_j": core.fstr(pj[t]), "used_j": core.fstr(uj[t])}))
        if srcs:
            for t in range(n):
                if abs(tot_src[t] - used[t]) > tol:
                    bad.append(("sum over sources of used != used", {"carrier": cr, "step": t,
                                                                     "sum": core.fstr(tot_src[t]), "used": core.fstr(used[t])}))
        # annual
        an = lambda grp, k: Fraction(b[grp][k])
        tola = _tol(sc * max(1, n))
        if abs(an("prod", "an") - (an("prod", "epus_an") + an("exp", "an"))) > tola:
            bad.append(("annual: produced != used + exported", {"carrier": cr}))
        if abs(an("exp", "an") - (an("exp", "nepus_an") + an("exp", "grid_an"))) > tola:
            bad.append(("annual: exported != nEPB + grid", {"carrier": cr}))
        if abs(an("used", "epus_an") - (an("prod", "epus_an") + an("del", "grid_an"))) > tola:
            bad.append(("annual: EPB use != used + delivered_grid", {"carrier": cr}))
        if abs(an("del", "an") - (an("del", "grid_an") + an("del", "onst_an") + an("del", "cgn_an"))) > tola:
            bad.append(("annual: delivered != grid + onsite + cogen input", {"carrier": cr}))
    return bad


def flat_ep(ep):
    return {k: v for k, v in core.flatten(ep).items()
            if k.startswith(core.NUMERIC_EP_PREFIXES) and isinstance(v, Fraction)}


def ep_scale(fl):
    s = Fraction(1)
    for k, v in fl.items():
        if k.startswith("balance/") or k.startswith("balance_cr/"):
            s = max(s, abs(v))
    return s


def oracle_c12(case, i, ep):
    """priority allocation and load matching factor on one evaluation; lm monotonicity across
    evaluations of the same case that differ only in load matching"""
    bad = []
    k, area, lm = case.evals[i]
    for cr, b in ep["balance_cr"].items():
        sc = carrier_scale(b)
        tol = _tol(sc)
        n = len(b["f_match"])
        u = _vec(b["used"]["epus_t"])
        p = _vec(b["prod"]["t"])
        f = _vec(b["f_match"])
        for t in range(n):
            if not lm:
                if f[t] != 1:
                    bad.append(("f_match != 1 without load matching", {"carrier": cr, "step": t, "f": core.fstr(f[t])}))
            else:
                if u[t] > 0 and p[t] > 0:
                    x = p[t] / u[t]
                    want = (x + 1 / x - 1) / (x + 1 / x)
                else:
                    want = Fraction(1)
                if abs(f[t] - want) > Fraction(1, 10000):
                    bad.append(("f_match differs from (x+1/x-1)/(x+1/x)", {"carrier": cr, "step": t, "f": core.fstr(f[t]),
                                                                        "expected": core.fstr(want)}))
            if f[t] < Fraction(1, 2) - Fraction(1, 10000) or f[t] > 1 + Fraction(1, 10000):
                bad.append(("f_match outside [0.5, 1]", {"carrier": cr, "step": t, "f": core.fstr(f[t])}))
        bs = b["prod"]["by_src_t"]
        if cr == "ELECTRICIDAD" and "EL_INSITU" in bs and "EL_COGEN" in bs:
            pv = _vec(bs["EL_INSITU"])
            chp = _vec(bs["EL_COGEN"])
            upv = _vec(b["prod"]["epus_by_src_t"]["EL_INSITU"])
            uchp = _vec(b["prod"]["epus_by_src_t"]["EL_COGEN"])
            for t in range(n):
                m_pv = min(pv[t], u[t])
                m_chp = min(chp[t], u[t] - m_pv)
                d = {"step": t, "u": core.fstr(u[t]), "pv": core.fstr(pv[t]), "chp": core.fstr(chp[t]),
                     "used_pv": core.fstr(upv[t]), "used_chp": core.fstr(uchp[t]), "f": core.fstr(f[t])}
                if abs(upv[t] - f[t] * m_pv) > tol:
                    bad.append(("on-site electricity not allocated first: used_pv != f*min(pv,u)", d))
                if abs(uchp[t] - f[t] * m_chp) > tol:
                    bad.append(("cogenerated electricity allocation != f*min(chp, u - min(pv,u))", d))
                if uchp[t] > tol and m_pv < pv[t] - tol:
                    bad.append(("cogenerated electricity used before on-site production is exhausted", d))
                if upv[t] + uchp[t] > u[t] + tol:
                    bad.append(("allocations exceed EPB use", d))
    # monotonicity in load matching
    if lm:
        for i0, (k0, a0, lm0) in enumerate(case.evals):
            if not lm0 and k0 == k and a0 == area:
                ev0 = case.impl["evals"][i0].get("ep", {})
                if "ok" not in ev0:
                    continue
                for cr, b in ep["balance_cr"].items():
                    b0 = ev0["ok"]["balance_cr"].get(cr)
                    if not b0:
                        continue
                    tol = _tol(carrier_scale(b))
                    us1, us0 = _vec(b["prod"]["epus_t"]), _vec(b0["prod"]["epus_t"])
                    dg1, dg0 = _vec(b["del"]["grid_t"]), _vec(b0["del"]["grid_t"])
                    for t in range(len(us1)):
                        if us1[t] > us0[t] + tol:
                            bad.append(("load matching increased the produced energy used on site", {"carrier": cr, "step": t}))
                        if dg1[t] < dg0[t] - tol:
                            bad.append(("load matching decreased the energy delivered by the grid", {"carrier": cr, "step": t}))
                break
    return bad


KDEP = ("/we/b/", "/we/b_by_srv/", "/we/exp/")


def oracle_c03(case, i, ep):
    """B(k) = A + k (B(1) - A); flows and step A independent of k. Evaluated once per case (on eval 0)
    over all evaluations that share area and load matching."""
    bad = []
    if i != 0:
        return bad
    groups = {}
    for j, (k, a, lm) in enumerate(case.evals):
        ev = case.impl["evals"][j].get("ep", {})
        if "ok" in ev:
            groups.setdefault((a, lm), []).append((Fraction(core.f32_round(k)), flat_ep(ev["ok"])))
    for (a, lm), lst in groups.items():
        by_k = {k: fl for k, fl in lst}
        if 0 not in by_k or 1 not in by_k:
            continue
        f0, f1 = by_k[0], by_k[1]
        sc = ep_scale(f0)
        for k, fk in lst:
            for path, v in fk.items():
                tol = tol_for(path, f0, sc)
                if path.startswith("rer") or path == "k_exp":
                    continue
                if any(x in "/" + path for x in ("/we/b/", "/we/b_by_srv/")):
                    pa = path.replace("/we/b/", "/we/a/").replace("/we/b_by_srv/", "/we/a_by_srv/")
                    if pa not in f0 or path not in f1:
                        bad.append(("step B entry without step A / k=1 counterpart", {"path": path}))
                        continue
                    want = f0[pa] + k * (f1[path] - f0[pa])
                    if abs(v - want) > tol:
                        bad.append(("step B is not A + k*(B(1)-A)", {"path": path, "k": core.fstr(k), "value": core.fstr(v),
                                                                     "expected": core.fstr(want)}))
                    if k == 0 and abs(v - f0[pa]) > tol:
                        bad.append(("k_exp = 0 does not report step A", {"path": path}))
                elif "/we/exp/" in "/" + path:
                    continue
                else:
                    if path not in f0 or abs(v - f0[path]) > tol:
                        bad.append(("k-independent quantity changes with k_exp", {"path": path, "k": core.fstr(k),
                                                                                 "value": core.fstr(v), "at_k0": core.fstr(f0.get(path))}))
            # no export => identical
        exp_total = f0.get("balance/exp/an", Fraction(0))
        if exp_total == 0:
            for k, fk in lst:
                for path in ("balance/we/b/0", "balance/we/b/1", "balance/we/b/2"):
                    if abs(fk[path] - f0[path]) > _tol(sc):
                        bad.append(("no export but result depends on k_exp", {"path": path}))
    return bad


def _rn(v):
    return [Fraction(x) for x in v]


def rer_tol(fl, sc):
    """tolerance on RER-type ratios: 1e-4 plus the conditioning of ren/(ren+nren)"""
    tot = abs(fl.get("balance/we/b/0", Fraction(0)) + fl.get("balance/we/b/1", Fraction(0)))
    t = Fraction(1, 10000)
    if tot > 0:
        t += 8 * _tol(sc) * (1 + abs(fl.get("rer", Fraction(0)))) / tot
    return t


def tol_for(path, fl, sc):
    """comparison tolerance for one flattened EP path: ratios by conditioning, per-m2 values scaled by 1/area"""
    if path.startswith("rer"):
        return rer_tol(fl, sc)
    if "/f_match/" in path:
        return Fraction(1, 10000)
    if path.startswith("balance_m2/"):
        a = fl.get("arearef", Fraction(1))
        if a > 0:
            return _tol(sc / a)
    return _tol(sc)


def oracle_c04(case, i, ep):
    """totals = sums of breakdowns; per-m2 = total / area; RER etc. independent of the area"""
    bad = []
    bal = ep["balance"]
    bcr = ep["balance_cr"]
    fl = flat_ep(ep)
    sc = ep_scale(fl)
    tol = _tol(sc * max(1, len(bcr)))
    area = Fraction(ep["arearef"])

    def chk(name, a, b, t=tol):
        if abs(Fraction(a) - Fraction(b)) > t:
            bad.append(("total != sum of breakdown: " + name, {"total": core.fstr(Fraction(a)), "sum": core.fstr(Fraction(b))}))

    S = lambda f: sum((Fraction(f(b)) for b in bcr.values()), Fraction(0))
    chk("used.epus over carriers", bal["used"]["epus"], S(lambda b: b["used"]["epus_an"]))
    chk("used.nepus over carriers", bal["used"]["nepus"], S(lambda b: b["used"]["nepus_an"]))
    chk("used.cgnus over carriers", bal["used"]["cgnus"], S(lambda b: b["used"]["cgnus_an"]))
    chk("prod.an over carriers", bal["prod"]["an"], S(lambda b: b["prod"]["an"]))
    chk("del.an over carriers", bal["del"]["an"], S(lambda b: b["del"]["an"]))
    chk("del.onst over carriers", bal["del"]["onst"], S(lambda b: b["del"]["onst_an"]))
    chk("del.grid over carriers", bal["del"]["grid"], S(lambda b: b["del"]["grid_an"]))
    chk("exp.an over carriers", bal["exp"]["an"], S(lambda b: b["exp"]["an"]))
    chk("exp.grid over carriers", bal["exp"]["grid"], S(lambda b: b["exp"]["grid_an"]))
    chk("exp.nepus over carriers", bal["exp"]["nepus"], S(lambda b: b["exp"]["nepus_an"]))
    for fld, cfld in (("a", "a"), ("b", "b"), ("del", "del"), ("exp_a", "exp_a"), ("exp", "exp")):
        for c in range(3):
            chk("we.%s[%d] over carriers" % (fld, c), bal["we"][fld][c], S(lambda b: b["we"][cfld][c]))
    # per carrier: produced-and-used energy by source and by service adds up
    for cr, b in bcr.items():
        chk("[%s] prod.epus_an by source" % cr, b["prod"]["epus_an"], sum(map(Fraction, b["prod"]["epus_by_src_an"].values())))
        for j, m in b["prod"]["epus_by_srv_by_src_an"].items():
            chk("[%s] prod.epus_by_src_an[%s] by service" % (cr, j), b["prod"]["epus_by_src_an"].get(j, 0), sum(map(Fraction, m.values())))
        chk("[%s] used.epus_an by service" % cr, b["used"]["epus_an"], sum(map(Fraction, b["used"]["epus_by_srv_an"].values())))
        chk("[%s] prod.an by source" % cr, b["prod"]["an"], sum(map(Fraction, b["prod"]["by_src_an"].values())))
    # breakdowns
    chk("used.epus by service", bal["used"]["epus"], sum(map(Fraction, bal["used"]["epus_by_srv"].values())))
    chk("used.epus by carrier", bal["used"]["epus"], sum(map(Fraction, bal["used"]["epus_by_cr"].values())))
    for s, m in bal["used"]["epus_by_cr_by_srv"].items():
        chk("epus_by_cr_by_srv[%s] over carriers" % s, bal["used"]["epus_by_srv"].get(s, 0), sum(map(Fraction, m.values())))
    for cr in bcr:
        tot_cr = sum((Fraction(m.get(cr, 0)) for m in bal["used"]["epus_by_cr_by_srv"].values()), Fraction(0))
        chk("epus_by_cr_by_srv over services [%s]" % cr, bal["used"]["epus_by_cr"].get(cr, 0), tot_cr)
    chk("prod.an by source", bal["prod"]["an"], sum(map(Fraction, bal["prod"]["by_src"].values())))
    chk("prod.an by carrier", bal["prod"]["an"], sum(map(Fraction, bal["prod"]["by_cr"].values())))
    for j, m in bal["prod"]["epus_by_srv_by_src"].items():
        chk("prod.epus_by_srv_by_src[%s] over services" % j, bal["prod"]["epus_by_src"].get(j, 0), sum(map(Fraction, m.values())))
    chk("del.an = grid + onst + cgnus", bal["del"]["an"],
        Fraction(bal["del"]["grid"]) + Fraction(bal["del"]["onst"]) + Fraction(bal["used"]["cgnus"]))
    chk("del.grid by carrier", bal["del"]["grid"], sum(map(Fraction, bal["del"]["grid_by_cr"].values())))
    chk("exp.an = grid + nepus", bal["exp"]["an"], Fraction(bal["exp"]["grid"]) + Fraction(bal["exp"]["nepus"]))
    for fld in ("a", "b"):
        for c in range(3):
            by_srv = sum((Fraction(v[c]) for v in bal["we"][fld + "_by_srv"].values()), Fraction(0))
            with_use = sum((Fraction(b["we"][fld][c]) for b in bcr.values() if b["used"]["epus_an"] > 0), Fraction(0))
            chk("we.%s[%d] by service (carriers with EPB use)" % (fld, c), with_use, by_srv)
    # per m2
    m2 = {k[len("balance_m2/"):]: v for k, v in fl.items() if k.startswith("balance_m2/")}
    ab = {k[len("balance/"):]: v for k, v in fl.items() if k.startswith("balance/")}
    if set(m2) != set(ab):
        bad.append(("balance_m2 and balance have different entries", {"only_m2": sorted(set(m2) - set(ab))[:5],
                                                                      "only_abs": sorted(set(ab) - set(m2))[:5]}))
    for k in ab:
        if k in m2 and area > 0 and abs(m2[k] - ab[k] / area) > _tol(sc / area):
            bad.append(("per-m2 value != total / area", {"path": k, "m2": core.fstr(m2[k]), "abs": core.fstr(ab[k]),
                                                         "area": core.fstr(area)}))
    # area independence across evaluations of the case
    if i == 0:
        for j, (k, a, lm) in enumerate(case.evals):
            if j == 0 or (k, lm) != (case.evals[0][0], case.evals[0][2]):
                continue
            ev = case.impl["evals"][j].get("ep", {})
            if "ok" not in ev:
                continue
            fj = flat_ep(ev["ok"])
            for path, v in fl.items():
                if path.startswith("balance_m2/") or path == "arearef":
                    continue
                if path not in fj or abs(fj[path] - v) > (rer_tol(fl, sc) if path.startswith("rer") else _tol(sc)):
                    bad.append(("quantity other than per-m2 changes with the reference area", {"path": path}))
    return bad


NEARBY = {"BIOMASA", "BIOMASADENSIFICADA", "RED1", "RED2", "EAMBIENTE", "TERMOSOLAR"}


def oracle_c13(case, i, ep):
    """RER definition, range and nesting (k_exp = 0, regulatory factors)"""
    bad = []
    fl = flat_ep(ep)
    sc = ep_scale(fl)
    ren, nren = Fraction(ep["balance"]["we"]["b"][0]), Fraction(ep["balance"]["we"]["b"][1])
    tot = ren + nren
    rer, nrb, onst = Fraction(ep["rer"]), Fraction(ep["rer_nrb"]), Fraction(ep["rer_onst"])
    tol = rer_tol(fl, sc)
    noise = 64 * _tol(sc)          # "total primary energy above rounding noise"
    if ren < -noise or nren < -noise:
        bad.append(("negative renewable or non-renewable primary energy", {"ren": core.fstr(ren), "nren": core.fstr(nren)}))
    if abs(tot) <= noise:
        return bad
    if tot > 0:
        want = ren / tot
        if abs(rer - want) > tol:
            bad.append(("RER != ren/(ren+nren)", {"rer": core.fstr(rer), "expected": core.fstr(want)}))
        if rer < -tol or rer > 1 + tol:
            bad.append(("RER outside [0,1]", {"rer": core.fstr(rer)}))
        el = ep["balance_cr"].get("ELECTRICIDAD")
        exp_src = {j: Fraction(v) for j, v in (el["exp"].get("by_src_an", {}) if el else {}).items()}
        exports_pv = exp_src.get("EL_INSITU", 0) > 0
        exports_chp = exp_src.get("EL_COGEN", 0) > 0
        far_fuel = sorted(cr for cr, b in ep["balance_cr"].items() if Fraction(b["used"]["cgnus_an"]) > 0 and cr not in NEARBY)
        d = {"rer": core.fstr(rer), "rer_nrb": core.fstr(nrb), "rer_onst": core.fstr(onst), "exports_onsite_electricity": exports_pv,
             "exports_cogenerated_electricity": exports_chp, "cogeneration_fuel_outside_the_nearby_perimeter": far_fuel}
        if nrb > rer + tol:
            bad.append(("RER_nrb > RER", d))
        if onst < -tol:
            bad.append(("RER_onst < 0", d))
        if onst > nrb + tol:
            # two recorded mechanisms (known_findings.json); anything else is a new violation
            bad.append(("KNOWN:exported-onsite-electricity" if exports_pv else
                        "KNOWN:exported-cogeneration-non-nearby-fuel" if (exports_chp and far_fuel) else "RER_onst > RER_nrb", d))
    return bad
