"""Executable statements of the properties over implementation outputs (runner dumps).

Used (a) on every correspondence case, (b) to search for a concrete failing input when a
proof obligation or the correspondence no longer checks.  Each oracle returns a list of
(what, detail) tuples; empty = the property holds on this output."""
from fractions import Fraction

from . import core

REL = Fraction(2, 100000)
ABS = Fraction(1, 1000000)


def _tol(scale):
    return REL * scale + ABS


def _fr(x):
    return Fraction(x) if not isinstance(x, str) else None


def _vec(v):
    return [Fraction(x) for x in v]


def carrier_scale(b):
    s = Fraction(1)
    for grp in ("used", "prod"):
        for k, v in b[grp].items():
            if isinstance(v, list):
                for x in v:
                    if not isinstance(x, str):
                        s = max(s, abs(Fraction(x)))
            elif isinstance(v, (int, float)):
                s = max(s, abs(Fraction(v)))
    return s


def oracle_c01(ep):
    """conservation identities and bounds on every carrier and step (property C01)"""
    bad = []
    for cr, b in ep["balance_cr"].items():
        sc = carrier_scale(b)
        tol = _tol(sc)
        n = len(b["used"]["epus_t"])
        u = _vec(b["used"]["epus_t"])
        ne = _vec(b["used"]["nepus_t"])
        p = _vec(b["prod"]["t"])
        used = _vec(b["prod"]["epus_t"])
        ex = _vec(b["exp"]["t"])
        exn = _vec(b["exp"]["nepus_t"])
        exg = _vec(b["exp"]["grid_t"])
        dg = _vec(b["del"]["grid_t"])
        for t in range(n):
            def chk(cond, what):
                if not cond:
                    bad.append((what, {"carrier": cr, "step": t, "u": core.fstr(u[t]), "p": core.fstr(p[t]),
                                       "used": core.fstr(used[t]), "exp": core.fstr(ex[t]),
                                       "exp_nepus": core.fstr(exn[t]), "exp_grid": core.fstr(exg[t]),
                                       "del_grid": core.fstr(dg[t]), "nepus": core.fstr(ne[t])}))
            chk(abs(p[t] - (used[t] + ex[t])) <= tol, "produced != used + exported")
            chk(abs(ex[t] - (exn[t] + exg[t])) <= tol, "exported != to_nEPB + to_grid")
            chk(abs(u[t] - (used[t] + dg[t])) <= tol, "EPB use != used + delivered_grid")
            for name, x in (("produced", p[t]), ("EPB use", u[t]), ("used", used[t]), ("exported", ex[t]),
                            ("exp_nepus", exn[t]), ("exp_grid", exg[t]), ("del_grid", dg[t])):
                chk(x >= -tol, "negative flow: " + name)
            chk(used[t] <= min(u[t], p[t]) + tol, "used > min(EPB use, production)")
            chk(exn[t] <= ne[t] + tol, "exported to nEPB > nEPB use")
        # per source
        srcs = list(b["prod"]["by_src_t"].keys())
        tot_src = [Fraction(0)] * n
        for j in srcs:
            pj = _vec(b["prod"]["by_src_t"][j])
            uj = _vec(b["prod"]["epus_by_src_t"].get(j, [0] * n))
            ej = _vec(b["exp"]["by_src_t"].get(j, [0] * n))
            for t in range(n):
                tot_src[t] += uj[t]
                if abs(pj[t] - (uj[t] + ej[t])) > tol:
                    bad.append(("per-source: produced != used + exported", {"carrier": cr, "source": j, "step": t}))
                if uj[t] < -tol or uj[t] > pj[t] + tol or ej[t] < -tol:
                    bad.append(("per-source bounds", {"carrier": cr, "source": j, "step": t,
                                                      "p_j": core.fstr(pj[t]), "used_j": core.fstr(uj[t])}))
        if srcs:
            for t in range(n):
                if abs(tot_src[t] - used[t]) > tol:
                    bad.append(("sum over sources of used != used", {"carrier": cr, "step": t,
                                                                     "sum": core.fstr(tot_src[t]), "used": core.fstr(used[t])}))
        # annual
        an = lambda grp, k: Fraction(b[grp][k])
        tola = _tol(sc * max(1, n))
        if abs(an("prod", "an") - (an("prod", "epus_an") + an("exp", "an"))) > tola:
            bad.append(("annual: produced != used + exported", {"carrier": cr}))
        if abs(an("exp", "an") - (an("exp", "nepus_an") + an("exp", "grid_an"))) > tola:
            bad.append(("annual: exported != nEPB + grid", {"carrier": cr}))
        if abs(an("used", "epus_an") - (an("prod", "epus_an") + an("del", "grid_an"))) > tola:
            bad.append(("annual: EPB use != used + delivered_grid", {"carrier": cr}))
        if abs(an("del", "an") - (an("del", "grid_an") + an("del", "onst_an") + an("del", "cgn_an"))) > tola:
            bad.append(("annual: delivered != grid + onsite + cogen input", {"carrier": cr}))
    return bad
