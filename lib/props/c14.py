"""C14 — More on-site renewable electricity never makes the building look worse"""
from fractions import Fraction
from .. import core, epflow, gen, metacheck, oracles, regset
from .c10 import line_of

THEOREMS = ["C14_building", "C14_grid_delivered_never_grows", "C14_exported_never_shrinks", "C14_nren_co2_never_grow", "C14_step_both_sources",
            "C14_ren_never_shrinks_without_cogeneration", "C14_ratio", "C14_load_matching_used_production",
            "C14_load_matching_factor_is_g", "C14_load_matching_without_cogeneration", "C14_load_matching_cogeneration_used",
            "C14_load_matching_factor_is_F", "C14_load_matching_step_both_sources", "C14_load_matching_carrier",
            "C14_rer_with_renewable_cogeneration_refuted"]


FOSSIL = {"GASNATURAL", "GASOLEO", "GLP", "CARBON"}


def relate_more_pv(has_cogen):
    def rel(eb, ev, base, var):
        a, b = eb.get("ep", {}), ev.get("ep", {})
        if "ok" not in a or "ok" not in b:
            ka = a.get("err") or ("panic" if "panic" in a else "ok" if "ok" in a else "?")
            kb = b.get("err") or ("panic" if "panic" in b else "ok" if "ok" in b else "?")
            return [] if ka == kb else [("more on-site production turns the evaluation into another outcome", {"base": ka, "variant": kb})]
        fa, fb = oracles.flat_ep(a["ok"]), oracles.flat_ep(b["ok"])
        sc = max(oracles.ep_scale(fa), oracles.ep_scale(fb))
        tol = sc * Fraction(2, 100000) + Fraction(1, 10 ** 6)
        for path, label in (("balance/we/a/1", "non-renewable primary energy, step A"), ("balance/we/a/2", "emissions, step A"),
                            ("balance/we/b/1", "non-renewable primary energy, step B"), ("balance/we/b/2", "emissions, step B"),
                            ("balance/del/grid", "grid-delivered energy")):
            x, y = fa.get(path, Fraction(0)), fb.get(path, Fraction(0))
            if y > x + tol:
                return [("more on-site electricity increases %s" % label, {"path": path, "before": core.fstr(x), "after": core.fstr(y),
                                                                            "k_exp": core.fstr(fa.get("k_exp")), "load_matching": eb.get("lm")})]
        if fa.get("k_exp") == 0:
            x, y = fa.get("rer", Fraction(0)), fb.get("rer", Fraction(0))
            tot = fa.get("balance/we/b/0", Fraction(0)) + fa.get("balance/we/b/1", Fraction(0))
            totv = fb.get("balance/we/b/0", Fraction(0)) + fb.get("balance/we/b/1", Fraction(0))
            # both totals above rounding noise (a ratio of noise says nothing), as in C13
            if tot > 64 * tol and totv > 64 * tol and y < x - Fraction(1, 10 ** 4):
                what = "more on-site electricity lowers RER (k_exp = 0)"
                if has_cogen:
                    what = "KNOWN:renewable-cogeneration:" + what
                return [(what, {"before": core.fstr(x), "after": core.fstr(y)})]
        return []
    return rel


def make_pairs(rng, count):
    pairs = []
    for i in range(count):
        k = rng.choice([0, 0, 1, Fraction(1, 4), Fraction(1, 2), Fraction(3, 4), Fraction(rng.randint(0, 64), 64)])
        area = rng.choice([1, 100, Fraction(75, 2)])
        b = gen.gen_building(rng, allow_multi_aux=False, force=rng.choice([{"pv"}, {"chp"}, {"pv", "chp"}, {"nepb", "pv"}, set(), {"hp", "pv"}]))
        loc = rng.choice(core.LOCS)
        crafted = None
        if rng.random() < 0.2:
            # cogeneration that exports most of its electricity at some steps, use (and the extra on-site production, which is then
            # consumed on the spot) at the other steps; a little on-site production already there: the exported electricity is
            # cogenerated, whatever the annual shares of the two sources
            n = rng.choice([2, 3, 12])
            A = [t for t in range(n) if rng.random() < 0.5] or [0]
            if len(A) == n:
                A = A[:-1]
            u = [Fraction(0) if t in A else gen.dy(rng, 64 * 50, 64 * 200) for t in range(n)]
            c = [gen.dy(rng, 64 * 50, 64 * 200) if t in A else Fraction(0) for t in range(n)]
            b = gen.Building()
            b.n = n
            b.add("CONSUMO", id=1, service="ILU", carrier="ELECTRICIDAD", values=u)
            b.add("CONSUMO", id=2, service="COGEN", carrier=rng.choice(["GASNATURAL", "GASOLEO", "BIOMASA"]), values=[x * 3 for x in c])
            b.add("PRODUCCION", id=2, source="EL_COGEN", values=c)
            b.add("PRODUCCION", id=3, source="EL_INSITU", values=[x / 16 for x in u])
            b.tags.add("cogen_exports_pv_self_consumed")
            crafted = [x / rng.choice([2, 4, 8]) for x in u]
            k = rng.choice([0, 0, Fraction(1, 8), Fraction(1, 4)])
            loc = rng.choice(["PENINSULA", loc])
        if crafted is None and rng.random() < 0.08:
            # inefficient cogeneration, a non-EPB electricity use that absorbs most of the exports, on-site production above the EPB use:
            # the extra production changes the shares of the two sources in the exported electricity (k_exp > 0 matters here)
            n = rng.choice([2, 3])
            u = [gen.dy(rng, 64 * 5, 64 * 20) for _ in range(n)]
            c = [gen.dy(rng, 64 * 60, 64 * 120) for _ in range(n)]
            b = gen.Building()
            b.n = n
            b.add("CONSUMO", id=1, service="ILU", carrier="ELECTRICIDAD", values=u)
            b.add("CONSUMO", id=1, service="NEPB", carrier="ELECTRICIDAD", values=[x * rng.choice([1, 1, 2]) for x in c])
            b.add("CONSUMO", id=2, service="COGEN", carrier=rng.choice(["GASNATURAL", "GASOLEO"]), values=[x * 5 for x in c])
            b.add("PRODUCCION", id=2, source="EL_COGEN", values=c)
            b.add("PRODUCCION", id=3, source="EL_INSITU", values=u)
            b.tags.add("cogen_exports_to_nepb")
            crafted = [x * rng.choice([1, 2, 4, 8]) if rng.random() < 0.7 else Fraction(0) for x in u]
            if not any(crafted):
                crafted[0] = u[0]
            k = rng.choice([Fraction(1, 4), Fraction(1, 2), Fraction(3, 4), 1])
        if crafted is None and rng.random() < 0.1:
            # a non-EPB electricity use that takes the whole surplus of the on-site production at every step: nothing reaches the grid
            # until the extra production, at one step, exceeds what the non-EPB use can take (k_exp = 0; some gas so that RER < 1)
            n = rng.choice([2, 3, 12])
            u = [gen.dy(rng, 64 * 50, 64 * 150) for _ in range(n)]
            w = [gen.dy(rng, 64 * 100, 64 * 200) for _ in range(n)]
            p = [a + c * Fraction(rng.randint(8, 48), 64) for a, c in zip(u, w)]
            b = gen.Building()
            b.n = n
            b.add("CONSUMO", id=1, service="ILU", carrier="ELECTRICIDAD", values=u)
            b.add("CONSUMO", id=1, service="NEPB", carrier="ELECTRICIDAD", values=w)
            b.add("CONSUMO", id=2, service="CAL", carrier="GASNATURAL", values=[x * 3 for x in u])
            b.add("PRODUCCION", id=3, source="EL_INSITU", values=p)
            b.tags.add("surplus_taken_by_non_epb_use")
            t = rng.randrange(n)
            crafted = [(u[s] + w[s] - p[s]) + gen.dy(rng, 64, 64 * 100) if s == t else Fraction(0) for s in range(n)]
            k = Fraction(0)
        if crafted is None:
            epflow.tiny_use(rng, b, 0.1)      # the property has no floor on the values
        user = {}
        base_text = "\n".join(line_of(kd, kw) for kd, kw in b.lines) + "\n"
        evals = [(float(k), float(area), False), (float(k), float(area), True)]
        base = epflow.EpCase("b%d" % i, {"text": base_text}, {"loc": loc}, user, evals, strip=rng.random() < 0.5, tags=b.tags)
        # the recorded finding needs cogenerated electricity whose fuel carries renewable resources (with a fossil fuel the exported
        # electricity takes non-renewable resources away and RER can only rise)
        has_cogen = (any(kd == "PRODUCCION" and kw.get("source") == "EL_COGEN" for kd, kw in b.lines) and
                     any(kd == "CONSUMO" and kw.get("service") == "COGEN" and kw.get("carrier") not in FOSSIL for kd, kw in b.lines))
        variants = []
        for j in range(2):
            mode = rng.choice(["one_step", "all_steps", "some_steps"])
            if crafted is not None and j == 0:
                mode, dv = "self_consumed_steps", crafted
            elif mode == "all_steps":
                dv = [gen.dy(rng, 1, 64 * 300) for _ in range(b.n)]
            elif mode == "one_step":
                t = rng.randrange(b.n)
                dv = [gen.dy(rng, 1, 64 * 300) if s == t else Fraction(0) for s in range(b.n)]
            else:
                dv = [gen.dy(rng, 1, 64 * 300) if rng.random() < 0.5 else Fraction(0) for _ in range(b.n)]
            extra = line_of("PRODUCCION", {"id": rng.choice([0, 9, 3]), "source": "EL_INSITU", "values": dv})
            v = epflow.EpCase("b%dv%d" % (i, j), {"text": base_text + extra + "\n"}, {"loc": loc}, user, evals, strip=base.strip, tags=b.tags)
            variants.append((v, relate_more_pv(has_cogen), mode))
        pairs.append((base, variants))
    return pairs


def run(tier, seed):
    return metacheck.run("C14", tier, seed, THEOREMS, make_pairs,
                         "theorems: with and without load matching, grid-delivered electricity does not grow, exports do not shrink, and under regular "
                         "(regulatory) factor sets the non-renewable primary energy and the emissions of the electricity carrier do not grow in "
                         "step A and step B for k_exp in [0,1]; C14_building: the same for the whole building under the regulatory sets; RER: "
                         "renewable energy does not shrink without cogeneration; load matching: used production monotone and 1-Lipschitz, the "
                         "cogenerated electricity used in a step does not grow (hc_mono), carrier and building statements with load matching; "
                         "RER with renewable-fuelled cogeneration is a known finding",
                         "each generated building (PV, cogeneration, both, non-EPB uses, heat pumps; four regulatory locations; k_exp in [0,1]; "
                         "with and without load matching) is re-evaluated with one more EL_INSITU production line (one step, some steps, all "
                         "steps); we.a / we.b nren and co2, del.grid compared, RER for k_exp = 0",
                         n_pairs=200 if tier == "quick" else 4000, extra_stage=regset.stage)
