"""C13 — Renewable energy ratios are proper fractions and perimeters are nested"""
import re
from .. import core, epcheck, epflow, facflow, gen, oracles
from ..check import load_known

THEOREMS = ["C13_rer_def", "C13_primary_energy_nonneg", "C13_rer_range", "C13_nrb_le_rer", "C13_onst_nonneg",
            "C13_nested_partial", "C13_nested_nearby_cogeneration", "C13_rer_zero_total", "C13_nested_refuted", "C13_nearby_negative_refuted"]
CONE = re.compile(r"^(rer|balance/we/b/|balance_cr/[A-Z0-9]+/we/(b|del_onst|del_cgn|exp_a)/)")

KNOWN = {f["class"]: "%s [%s]" % (f["what"], f["id"]) for f in load_known().get("findings", []) if f.get("property") == "C13"}


def select(path):
    return bool(CONE.match(path))


def nontrivial(ep):
    """total primary energy is positive and at least one of on-site production / nearby carriers is present"""
    b = ep["balance"]
    return (b["we"]["b"][0] + b["we"]["b"][1]) > 0 and (b["prod"]["an"] > 0 or any(c in ep["balance_cr"] for c in ("BIOMASA", "BIOMASADENSIFICADA", "RED1", "RED2")))


def known_filter(what, detail, case):
    if what.startswith("KNOWN:"):
        return KNOWN.get(what[6:])
    return None


def reg_stage(R, rng, meta):
    """the regulatory structure required by the theorems, decided in Coq on the prepared location sets
    dumped from the compiled code (with and without non-negative user RED1/RED2)"""
    tb = facflow.tables()
    items = []
    for loc, d in tb["locwf_prepared"].items():
        items.append(("reg_%s" % loc, "Definition regf_%s := %s." % (loc, core.g_factors(d["wdata"])),
                      'if reg_setb regf_%s then "REGOK" else "REGFAIL"' % loc))
    out, errs = core.run_coq_cases("C13reg", items, header=core.CASE_HEADER + "From Cteepbd Require Import Proofs.RerFacts.\n")
    R.harness_errors.extend(errs)
    okc = 0
    for cid, _, _ in items:
        t = out.get(cid, "")
        if "REGOK" in t:
            okc += 1
        else:
            R.broken.append(("regulatory structure (reg_setb) does not hold for a prepared location set", {"location": cid, "output": t[:200]}))
    meta["coverage"]["regulatory_sets_checked"] = okc


CRAFTED = [
    # the two recorded mechanisms (always reproduced), then buildings close to them for which the nesting does hold
    ("exported on-site electricity", "CONSUMO, ILU, ELECTRICIDAD, 100\nPRODUCCION, EL_INSITU, 200\n"),
    ("exported cogeneration from biofuel", "CONSUMO, ILU, ELECTRICIDAD, 20\nCONSUMO, COGEN, BIOCARBURANTE, 108\nPRODUCCION, EL_COGEN, 48\nCONSUMO, CAL, GASNATURAL, 100\n"),
    ("exported cogeneration from biomass used for nothing else", "CONSUMO, ILU, ELECTRICIDAD, 20\nCONSUMO, COGEN, BIOMASA, 108\nPRODUCCION, EL_COGEN, 48\nCONSUMO, CAL, GASNATURAL, 100\n"),
    ("exported cogeneration from a district network", "CONSUMO, ILU, ELECTRICIDAD, 20, 30\nCONSUMO, COGEN, RED1, 100, 90\nPRODUCCION, EL_COGEN, 45, 40\n1, CONSUMO, ACS, EAMBIENTE, 50, 50\n1, CONSUMO, ACS, ELECTRICIDAD, 20, 20\n"),
    ("exported cogeneration from densified biomass, nothing else", "CONSUMO, COGEN, BIOMASADENSIFICADA, 100\nPRODUCCION, EL_COGEN, 40\nCONSUMO, REF, ELECTRICIDAD, 10\n"),
    ("cogeneration from biomass fully used", "CONSUMO, ILU, ELECTRICIDAD, 80\nCONSUMO, COGEN, BIOMASA, 108\nPRODUCCION, EL_COGEN, 48\n"),
]


def gen_cases_c13(rng, count, prefix="c"):
    cases = []
    for i, (name, text) in enumerate(CRAFTED):
        for loc in (("PENINSULA",) if i < 2 else ("PENINSULA", "CANARIAS")):
            for lm in (False, True):
                c = epflow.EpCase("%sk%d%s%d" % (prefix, i, loc[0], int(lm)), {"text": text}, {"loc": loc}, {}, [(0.0, 1.0, lm)], tags={"crafted:" + name})
                c.n = len(text.splitlines()[0].split(",")) - 3
                cases.append(c)
    for i in range(count):
        lm = rng.random() < 0.5
        b = gen.gen_building(rng, ratio_only=lm, force=rng.choice([set(), {"pv"}, {"chp"}, {"hp"}, {"solar"}]))
        user = {}
        if rng.random() < 0.3:
            user["red1"] = [rng.randint(0, 1500) / 1000.0, rng.randint(0, 1500) / 1000.0, rng.randint(0, 500) / 1000.0]
        if rng.random() < 0.2:
            user["red2"] = [rng.randint(0, 1500) / 1000.0, rng.randint(0, 1500) / 1000.0, rng.randint(0, 500) / 1000.0]
        area = gen.gen_params(rng)[1]
        c = epflow.EpCase("%s%d" % (prefix, i), {"text": b.text()}, {"loc": rng.choice(core.LOCS)}, user,
                          [(0.0, area, lm)], strip=rng.random() < 0.3, tags=b.tags)
        c.n = b.n
        cases.append(c)
    return cases


def run(tier, seed):
    return epcheck.run("C13", tier, seed, THEOREMS, select, oracles.oracle_c13, nontrivial,
                       n_model=48 if tier == "quick" else 500, known_filter=known_filter, extra_stage=reg_stage,
                       case_gen=gen_cases_c13,
                       level_note="range, definition, RER_nrb <= RER and RER_onst >= 0 proved for all buildings (incl. the "
                                  "cross-carrier cogeneration argument); full nesting proved for buildings that export no "
                                  "electricity, and for buildings that export only cogenerated electricity from nearby fuels (C13_nested_nearby_cogeneration); known findings: exported on-site electricity (C13_nested_refuted), exported cogenerated electricity from a fuel outside the nearby perimeter (C13_nearby_negative_refuted)")
