"""C03 — k_exp only interpolates between step A and step B"""
import re
from .. import epcheck, oracles

THEOREMS = ["C03_k_only", "C03_flows_const", "C03_affine_carrier", "C03_stepA_const", "C03_affine_total",
            "C03_affine_service", "C03_affine_m2", "C03_no_export", "C03_results_are_ok"]
CONE = re.compile(r"^(balance|balance_m2|balance_cr/[A-Z0-9]+)/we/|^k_exp$")


def select(path):
    return bool(CONE.match(path))


def nontrivial(ep):
    """the building exports energy (so that step A and step B differ)"""
    return ep["balance"]["exp"]["an"] > 0


def run(tier, seed):
    return epcheck.run("C03", tier, seed, THEOREMS, select, oracles.oracle_c03, nontrivial,
                       gen_force={"pv"}, multi_eval="k",
                       n_model=24 if tier == "quick" else 200,
                       level_note="k_exp enters the model only through we_of_parts (structural theorem C03_k_only); "
                                  "affine law proved for carriers, totals, services, per-m2")
