"""C01 — Energy is conserved per carrier and time step"""
import re
from .. import epcheck, oracles

THEOREMS = ["C01_step", "C01_src", "C01_src_total", "C01_src_total_any_values", "C01_annual"]
CONE = re.compile(r"^balance_cr/[A-Z0-9]+/(f_match|used|prod|exp|del)/")


def select(path):
    return bool(CONE.match(path))


def oracle(case, i, ep):
    return oracles.oracle_c01(ep)


def nontrivial(ep):
    """some carrier has production that is partly used and partly exported, or an nEPB use"""
    for b in ep["balance_cr"].values():
        if b["prod"]["an"] > 0 and (b["exp"]["an"] > 0 or b["prod"]["epus_an"] > 0):
            return True
    return False


def run(tier, seed):
    return epcheck.run("C01", tier, seed, THEOREMS, select, oracle, nontrivial,
                       level_note="theorems C01_step/C01_src/C01_src_total/C01_annual over the Qc model for all component "
                                  "lists, step counts, carriers and both load-matching modes; tie to code by correspondence "
                                  "on the per-carrier flows")
