"""C06 — All declared auxiliary electricity is counted once, for the right services"""
from .. import normcheck, normflow

THEOREMS = ["C06_single", "C06_single_values", "C06_shares", "C06_conserve", "C06_others_untouched", "C06_error",
            "C06_counted", "C06_aux_is_epb_electricity", "C06_zero_output_refuted",
            "C06_normalized_aux_total", "C06_normalized_aux_conserved"]

from ..check import load_known

# known findings are read from the committed /verif/known_findings.json (never written at run time)
KNOWN = {f["class"]: "%s [%s]" % (f["what"], f["id"]) for f in load_known().get("findings", []) if f.get("property") == "C06"}


def run(tier, seed):
    return normcheck.run("C06", tier, seed, THEOREMS, normflow.oracle_c06,
                         "the set declares auxiliary energy",
                         "theorems over the model of assign_aux_nepb_to_epb_services (after fix: commits ccf3680, 5ed34e0, "
                         "699eef2); known finding: zero-output step (C06_zero_output_refuted)",
                         known_map=KNOWN)
