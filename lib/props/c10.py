"""C10 — Results depend on what is declared, not on file layout or on the run"""
import json
import random
from fractions import Fraction
from .. import core, epflow, gen, metacheck, oracles
from .c11 import text_of, fmt_any

THEOREMS = ["C10_reorder", "C10_normalize_reorder", "C10_reorder_declared", "C10_normalize_rename", "C10_rename_declared", "C10_split", "C10_normalize_split", "C10_split_declared", "C10_normalize_same_system_sums", "C10_rename_balance", "C10_completion_order_independent",
            "C10_aux_order_independent", "C10_sorted", "C10_text_is_read_by_trimmed_lines", "C10_text_whitespace",
            "C10_text_ignored_line", "C10_text_bom", "C10_text_crlf", "C10_text_explicit_id0", "C10_text_omitted_id_is_zero"]


def line_of(kind, kw, omit_id0=False, pad=""):
    vals = ("," + pad + " ").join(fmt_any(v) for v in kw["values"])
    idp = "" if (omit_id0 and kw.get("id") == 0) else "%d,%s " % (kw.get("id", 0), pad)
    cm = (" # " + kw["comment"]) if kw.get("comment") else ""
    if kind == "CONSUMO":
        return "%sCONSUMO,%s %s, %s,%s %s%s" % (idp, pad, kw["service"], kw["carrier"], pad, vals, cm)
    if kind == "PRODUCCION":
        return "%sPRODUCCION, %s,%s %s%s" % (idp, kw["source"], pad, vals, cm)
    if kind == "AUX":
        return "%sAUX, %s%s" % (idp, vals, cm)
    if kind == "SALIDA":
        return "%d, SALIDA, %s, %s%s" % (kw["id"], kw["service"], vals, cm)
    return "DEMANDA, %s, %s%s" % (kw["service"], vals, cm)


def variant_text(rng, b, kind):
    """the rewritten data lines, with the metadata lines of the base file: in front of them, or (reorder) anywhere among them"""
    text = variant_data_text(rng, b, kind)
    meta = list(getattr(b, "meta_lines", []))
    if not meta:
        return text
    if kind != "reorder":
        bom = text.startswith("\ufeff")
        nl = "\r\n" if "\r\n" in text else "\n"
        return ("\ufeff" if bom else "") + nl.join(meta) + nl + (text[1:] if bom else text)
    mrng = random.Random("c10-place-%d" % len(text))
    ls = text.split("\n")[:-1]
    for m in meta:
        ls.insert(mrng.randrange(len(ls) + 1), m)
    return "\n".join(ls) + "\n"


def variant_data_text(rng, b, kind):
    lines = [(k, dict(kw)) for k, kw in b.lines]
    if kind == "reorder":
        rng.shuffle(lines)
        return "\n".join(line_of(k, kw) for k, kw in lines) + "\n"
    if kind == "split":
        out = []
        for k, kw in lines:
            if k != "DEMANDA" and k != "AUX" and rng.random() < 0.5:
                a = [Fraction(int(Fraction(v) * 64 * rng.random()), 64) for v in kw["values"]]
                bb = [Fraction(v) - x for v, x in zip(kw["values"], a)]
                out.append((k, dict(kw, values=a)))
                out.append((k, dict(kw, values=bb)))
            else:
                out.append((k, kw))
        rng.shuffle(out)
        return "\n".join(line_of(k, kw) for k, kw in out) + "\n"
    if kind == "rename":
        ids = sorted({kw["id"] for k, kw in lines if "id" in kw})
        new = rng.sample(range(-50, 400), len(ids))
        mp = dict(zip(ids, new))
        return "\n".join(line_of(k, dict(kw, id=mp[kw["id"]]) if "id" in kw else kw) for k, kw in lines) + "\n"
    if kind == "decorate":
        out = []
        if rng.random() < 0.5:
            out.append("﻿" if False else "")
        out.append("# comentario inicial")
        out.append("vector, tipo, src_dst, " + ", ".join(str(i) for i in range(1, b.n + 1)))
        for k, kw in lines:
            if rng.random() < 0.3:
                out.append("")
            if rng.random() < 0.3:
                out.append("   # otro comentario, con comas, y # almohadillas")
            pad = rng.choice(["", " ", "  "])
            lead = rng.choice(["", " ", "\t", "   "])
            trail = rng.choice(["", " ", "  \t"])
            out.append(lead + line_of(k, kw, omit_id0=rng.random() < 0.5, pad=pad) + trail)
        text = "\n".join(out) + "\n"
        if rng.random() < 0.4:
            text = "﻿" + text
        if rng.random() < 0.3:
            text = text.replace("\n", "\r\n")
        return text
    raise ValueError(kind)


def same_metadata(rel):
    """the relation [rel] between the two evaluations, and the same metadata read from the two files"""
    def f(eb, ev, base, var):
        bad = rel(eb, ev, base, var)
        try:
            ma = sorted(json.dumps(m, sort_keys=True) for m in base.impl["comps"]["ok"]["meta"])
            mb = sorted(json.dumps(m, sort_keys=True) for m in var.impl["comps"]["ok"]["meta"])
        except (KeyError, TypeError):
            return bad
        if ma != mb and not bad:
            bad = [("the rewritten file is read with other metadata", {"base": ma[:6], "variant": mb[:6]})]
        return bad
    return f


def order_sensitive_building(rng):
    """carriers, services and sources whose figures differ by seven orders of magnitude: in f32 the sum 2^24 + 1 + 1 + 1 depends on
    the order of the terms, so any total accumulated in the iteration order of a hash map differs between two evaluations (fixes
    85f4cb1, ae3af29)"""
    b = gen.Building()
    b.n = 1
    big = Fraction(2 ** 24)
    small = lambda: Fraction(1)
    b.add("CONSUMO", id=1, service="ACS", carrier="TERMOSOLAR", values=[big])
    b.add("CONSUMO", id=2, service="ACS", carrier="EAMBIENTE", values=[small()])
    b.add("CONSUMO", id=3, service="ACS", carrier="RED1", values=[small()])
    b.add("CONSUMO", id=4, service="ACS", carrier="RED2", values=[small()])
    b.add("CONSUMO", id=5, service="CAL", carrier="GASNATURAL", values=[big])
    b.add("CONSUMO", id=6, service="ILU", carrier="ELECTRICIDAD", values=[small()])
    b.add("CONSUMO", id=6, service="VEN", carrier="ELECTRICIDAD", values=[small()])
    b.add("CONSUMO", id=7, service="REF", carrier="BIOMASA", values=[small()])
    b.add("PRODUCCION", id=6, source="EL_INSITU", values=[Fraction(3, 2)])
    b.add("DEMANDA", service="ACS", values=[big + 3])
    b.tags.add("order_sensitive_sums")
    return b


def make_pairs(rng, count):
    pairs = []
    for i in range(6):
        b = order_sensitive_building(rng)
        base_text = "\n".join(line_of(kd, kw) for kd, kw in b.lines) + "\n"
        # district networks declared fully renewable by the user: every nearby carrier then contributes to the renewable sum
        fspec, user = {"loc": rng.choice(core.LOCS)}, {"red1": [1.0, 0.0, 0.0], "red2": [1.0, 0.0, 0.0]}
        k, area, lm = gen.gen_params(rng)
        base = epflow.EpCase("h%d" % i, {"text": base_text}, fspec, user, [(k, area, lm)], tags=b.tags, want=["acs"])
        variants = []
        for j in range(3):
            v = epflow.EpCase("h%dr%d" % (i, j), {"text": base_text}, fspec, user, [(k, area, lm)], tags=b.tags, want=["acs"])
            variants.append((v, metacheck.relate_exact(), "repeat"))
        pairs.append((base, variants))
    for i in range(count):
        fspec, user = gen.gen_factors_spec(rng)
        k, area, lm = gen.gen_params(rng)
        b = gen.gen_building(rng, ratio_only=lm, allow_multi_aux=True,
                             force=rng.choice([set(), {"pv"}, {"chp"}, {"nepb"}, {"hp"}, {"solar"}]))
        # make sure some components have id 0 so that "omit id 0" is exercised
        if rng.random() < 0.5:
            ids = sorted({kw["id"] for _, kw in b.lines if "id" in kw})
            if ids and 0 not in ids:
                for _, kw in b.lines:
                    if kw.get("id") == ids[0]:
                        kw["id"] = 0
        # metadata lines are part of what is declared: wherever they stand in the file they are read (drawn from a generator of its
        # own so that the stream of buildings is the one it was before)
        mrng = random.Random("c10-meta-%d-%d" % (i, len(b.lines)))
        b.meta_lines = ["#META CTE_AREAREF: %s" % mrng.choice(["200.0", "37.5"]), "#META CTE_KEXP: %s" % mrng.choice(["1.0", "0.5"]),
                        "#META Autor: \u00d1u\u00f1ez"] if mrng.random() < 0.5 else []
        base_text = "\n".join(b.meta_lines + [line_of(kd, kw) for kd, kw in b.lines]) + "\n"
        base = epflow.EpCase("b%d" % i, {"text": base_text}, fspec, user, [(k, area, lm)], strip=rng.random() < 0.3, tags=b.tags, want=["acs"])
        variants = []
        for kind in rng.sample(["reorder", "split", "rename", "decorate"], 2) + ["repeat"]:
            if kind == "repeat":
                # the same file again: evaluated in another runner process and twice in the same process
                v = epflow.EpCase("b%dr" % i, {"text": base_text}, fspec, user, [(k, area, lm)], strip=base.strip, tags=b.tags, want=["acs"])
            else:
                v = epflow.EpCase("b%d%s" % (i, kind[:2]), {"text": variant_text(rng, b, kind)}, fspec, user, [(k, area, lm)],
                                  strip=base.strip, tags=b.tags, want=["acs"])
            variants.append((v, same_metadata(metacheck.relate_exact() if kind == "repeat" else metacheck.relate_scaled(Fraction(1))), kind))
        pairs.append((base, variants))
    return pairs


def run(tier, seed):
    return metacheck.run("C10", tier, seed, THEOREMS, make_pairs,
                         "data-level theorems (reorder, split, rename in the balance and from the declared components through normalisation; order independence of completion and auxiliary "
                         "assignment; stable final sort) and text-level theorems over the reader model (the reader sees the text through "
                         "its trimmed lines; white space, ignored lines, BOM, CR before LF, explicit id 0). Partial: repeated evaluation (other hash-map orders; bit-identical results required) are established by the "
                         "differential run on the implementation only; f32 summation order is not modelled",
                         "each base file is rewritten by two of {line reorder, split of components into two lines adding up, consistent id "
                         "renumbering, decoration with comments/blank lines/header/BOM/CRLF/white space/omitted id 0} and re-evaluated "
                         "unchanged in another process; all annual fields, outcome kinds and the DHW fraction compared",
                         n_pairs=300 if tier == "quick" else 6000)
