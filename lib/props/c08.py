"""C08 — Simplifying the factor set never changes the result"""
import hashlib
import json
from collections import Counter
from fractions import Fraction

from .. import core, check, facflow, epflow, epcheck, gen, normflow, oracles

THEOREMS = ["C08_invisible", "C08_no_new_error", "C08_needed_kept", "C08_strip_is_a_key_filter"]


def gen_c08_building(rng):
    b = gen.gen_building(rng, allow_multi_aux=True, force=rng.choice([set(), {"pv"}, {"chp"}, {"nepb"}, {"hp"}, {"solar"}]))
    r = rng.random()
    n = b.n
    if r < 0.15:
        # auxiliaries as the only electricity
        b.lines = [(k, kw) for k, kw in b.lines if not (k in ("CONSUMO", "PRODUCCION") and (kw.get("carrier") == "ELECTRICIDAD" or kw.get("source", "").startswith("EL_")))]
        b.lines = [(k, kw) for k, kw in b.lines if k != "AUX"]
        b.add("CONSUMO", id=31, service="CAL", carrier="GASNATURAL", values=gen.vec(rng, n))
        b.add("AUX", id=31, values=gen.vec(rng, n, hi=64 * 20, pzero=0.0))
        b.tags.add("aux_only_electricity")
    elif r < 0.3:
        # output-energy line placed first, before an on-site electricity production
        b.lines.insert(0, ("SALIDA", dict(id=1, service="CAL", values=gen.vec(rng, n))))
        b.lines.append(("PRODUCCION", dict(id=1, source="EL_INSITU", values=gen.vec(rng, n))))
        b.tags.add("salida_before_pv")
        return b
    rng.shuffle(b.lines)
    return b


def run(tier, seed):
    prop = "C08"
    R = check.Result(prop, tier, seed)
    rng = check.make_rng(prop, seed)
    n_model = 60 if tier == "quick" else 800
    n_oracle = 1500 if tier == "quick" else 25000
    meta = {"coverage": {"checker_cmd": "make -C coq theories/Props/C08.vo && coqc <Print Assumptions> (+ coqchk in thorough tier)",
                         "trusted_base": epcheck.TRUSTED_BASE,
                         "rule": "buildings with output-energy lines, auxiliaries as only electricity, cogeneration, non-EPB uses, "
                                 "exported ambient/solar energy x prepared factor sets (locations and user files incl. user COGEN "
                                 "factors); each evaluated with and without Factors::strip; non-trivial = strip removed at least "
                                 "one factor and the evaluation succeeded; stripped lists compared exactly with the model"},
            "assumptions": ["C08_invisible assumes non-negative values and no AUX component with service COGEN (true after "
                            "Components::normalize since fix d9ddfb3)"]}
    try:
        core.build_runner()
    except core.BuildError as e:
        R.harness_errors.append(str(e)[-1500:])
        R.broken.append(("build of /repo's working tree failed", str(e)[-800:]))
        return R.finish(meta)
    ok, rep = check.proof_obligations(prop, THEOREMS)
    R.proof = rep
    if not ok:
        R.broken.append(("proof obligations", {k: rep.get(k) for k in ("failed", "failing_location", "forbidden_vernacular",
                                                                         "make_log_tail", "assumption_check_error", "assumptions")}))
    if tier == "thorough" and ok:
        cok, axioms, tail = check.coqchk(prop)
        meta["coverage"]["coqchk"] = {"ok": cok, "axioms": axioms}
        if not cok or axioms:
            R.broken.append(("coqchk", {"ok": cok, "axioms": axioms, "tail": tail}))

    def mk(i, prefix):
        b = gen_c08_building(rng)
        fspec, user = gen.gen_factors_spec(rng)
        ev = [gen.gen_params(rng)]
        full = epflow.EpCase("%s%d" % (prefix, i), {"text": b.text()}, fspec, user, ev, strip=False, tags=b.tags)
        st = epflow.EpCase("%s%ds" % (prefix, i), {"text": b.text()}, fspec, user, ev, strip=True, tags=b.tags)
        return full, st

    pairs = [mk(i, "c") for i in range(n_model)]
    opairs = [mk(i, "o") for i in range(n_oracle)]
    allc = [c for p in pairs + opairs for c in p]
    epflow.run_impl(allc)
    # 1. correspondence of strip itself: model strip(prepared, normalised data) = implementation's stripped list
    items = []
    for full, st in pairs:
        r = st.impl
        if not (isinstance(r.get("comps"), dict) and "ok" in r["comps"] and "ok" in r.get("factors", {}) and core.finite_components(r["comps"]["ok"])):
            continue
        name = "st_%s" % full.cid
        defs = "Definition %s_c := %s.\nDefinition %s_f := %s." % (name, core.g_components(r["comps"]["ok"]), name, core.g_factors(r["factors"]["ok"]["wdata"]))
        items.append((full.cid, defs, "OutOk (map out_row (dump_factors (strip %s_f (c_data %s_c))))" % (name, name)))
    out, errs = core.run_coq_cases(prop, items)
    R.harness_errors.extend(errs)
    tags = Counter()
    for full, st in pairs:
        t = out.get(full.cid)
        if t is None:
            continue
        R.evaluations += 1
        m = core.parse_outcome(t)
        sr = st.impl.get("stripped", {})
        if "ok" in sr and m[0] == "ok":
            a = facflow.factors_from_dump(sr["ok"])
            b = facflow.factors_from_rows(m[1])
            if a == b:
                R.cases_validated += 1
            else:
                R.broken.append(("correspondence model/implementation (strip)", {"case": full.cid, "impl_len": len(a), "model_len": len(b), "replay": st.replay()}))
        elif "panic" in sr:
            pass  # reported below as a violation
        else:
            R.broken.append(("correspondence model/implementation (strip)", {"case": full.cid, "impl": str(sr)[:200], "model": str(m)[:200]}))
        for tg in full.tags:
            tags[tg] += 1
    R.stats["model_vs_impl"] = {"cases": len(items), "agree": R.cases_validated, "tags": dict(tags)}
    # 2. the property on the implementation: evaluation with and without strip
    seen = set()
    otags = Counter()
    for full, st in pairs + opairs:
        for tg in full.tags:
            otags[tg] += 1
        rf, rs = full.impl, st.impl
        if "panic" in rs.get("stripped", {}):
            if len(R.violations) < 3:
                payload = st.replay()
                payload.update({"what": "Factors::strip panicked", "detail": rs["stripped"]})
                R.violations.append(("Factors::strip panicked", payload))
            continue
        if "evals" not in rf or "evals" not in rs:
            continue
        for i, (ef, es) in enumerate(zip(rf["evals"], rs["evals"])):
            R.evaluations += 1
            a, b = ef.get("ep", {}), es.get("ep", {})
            what = None
            detail = {}
            if "ok" in a and "ok" in b:
                fa, fb = oracles.flat_ep(a["ok"]), oracles.flat_ep(b["ok"])
                sc = oracles.ep_scale(fa)
                for k in sorted(set(fa) | set(fb)):
                    x, y = fa.get(k), fb.get(k)
                    tol = oracles.tol_for(k, fa, sc)
                    if x is None or y is None or abs(x - y) > tol:
                        what = "evaluation with the simplified factor set differs"
                        detail = {"path": k, "full": core.fstr(x), "stripped": core.fstr(y)}
                        break
                nf, ns = len(rf["factors"]["ok"]["wdata"]), len(rs["stripped"]["ok"]["wdata"])
                if ns < nf:
                    seen.add(hashlib.sha1(json.dumps(st.job(), sort_keys=True).encode()).hexdigest())
            elif "ok" in a and "ok" not in b:
                what = "simplifying the factor set turned a successful evaluation into an error"
                detail = {"stripped_result": {k: v for k, v in b.items() if k != "ok"}}
            elif "panic" in b:
                what = "evaluation with the simplified factor set panicked"
                detail = b
            elif a.get("err") != b.get("err"):
                what = "evaluation with the simplified factor set fails differently"
                detail = {"full": a.get("err"), "stripped": b.get("err")}
            if what and len(R.violations) < 3:
                payload = st.replay()
                payload.update({"what": what, "detail": detail, "compare_with": "the same job with strip=false"})
                R.violations.append((what, payload))
    R.distinct_nontrivial = len(seen)
    R.stats["oracle_stream"] = {"pairs": len(pairs) + len(opairs), "tags": dict(otags)}
    R.samples.append({"components_text": pairs[0][0].comps_spec["text"][:1200], "factors": pairs[0][0].factors_spec if "loc" in pairs[0][0].factors_spec else "user file", "evals": pairs[0][0].evals})
    return R.finish(meta)
