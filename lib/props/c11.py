"""C11 — Results scale linearly with energy and inversely with area"""
from fractions import Fraction
from .. import core, epflow, gen, metacheck, oracles

THEOREMS = ["C11_energy", "C11_steps_scale", "C11_step_projections", "C11_totals_scale", "C11_carrier_scale",
            "C11_ratios_unchanged", "C11_area", "C11_normalize_scale", "C11_energy_any_values"]
KAPPAS_EXACT = [Fraction(1, 64), Fraction(1, 4), Fraction(2), Fraction(16), Fraction(1024)]
KAPPAS_APPROX = [Fraction(1, 10), Fraction(3), Fraction(1000)]


def fmt_any(v):
    """decimal text of a rational (exact when dyadic, 9 significant digits otherwise)"""
    try:
        return gen.fmt(v)
    except AssertionError:
        return "%.9g" % float(v)


def text_of(b):
    lines = []
    for kind, kw in b.lines:
        vals = ", ".join(fmt_any(v) for v in kw["values"])
        if kind == "CONSUMO":
            lines.append("%d, CONSUMO, %s, %s, %s" % (kw["id"], kw["service"], kw["carrier"], vals))
        elif kind == "PRODUCCION":
            lines.append("%d, PRODUCCION, %s, %s" % (kw["id"], kw["source"], vals))
        elif kind == "AUX":
            lines.append("%d, AUX, %s" % (kw["id"], vals))
        elif kind == "SALIDA":
            lines.append("%d, SALIDA, %s, %s" % (kw["id"], kw["service"], vals))
        elif kind == "DEMANDA":
            lines.append("DEMANDA, %s, %s" % (kw["service"], vals))
    return "\n".join(lines) + "\n"


def per_step_scale(kappa):
    def f(a, b, sc, var):
        out = []
        for cr, ba in a["balance_cr"].items():
            bb = b["balance_cr"].get(cr)
            if bb is None:
                return [("carrier missing in the variant", {"carrier": cr})]
            for t, (x, y) in enumerate(zip(ba["f_match"], bb["f_match"])):
                if abs(Fraction(x) - Fraction(y)) > Fraction(1, 10000):
                    return [("load matching factor changes with the scale", {"carrier": cr, "step": t})]
            for grp, key in (("used", "epus_t"), ("prod", "epus_t"), ("exp", "grid_t"), ("exp", "nepus_t"), ("del", "grid_t")):
                for t, (x, y) in enumerate(zip(ba[grp][key], bb[grp][key])):
                    if abs(Fraction(y) - kappa * Fraction(x)) > oracles._tol(sc):
                        return [("per-step value does not scale", {"carrier": cr, "field": grp + "." + key, "step": t})]
        return out
    return f


def relate_pow2_exact(kap):
    """a power-of-two factor commutes exactly with f32 arithmetic: every energy must be exactly kap times the base's,
    every ratio identical — unless the code compares an energy with an absolute constant"""
    def rel(eb, ev, base, var):
        a, b = eb.get("ep", {}), ev.get("ep", {})
        if "ok" not in a or "ok" not in b:
            ka = a.get("err") or ("ok" if "ok" in a else "?")
            kb = b.get("err") or ("ok" if "ok" in b else "?")
            return [] if ka == kb else [("variant evaluates to a different outcome", {"base": ka, "variant": kb})]
        fa, fb = oracles.flat_ep(a["ok"]), oracles.flat_ep(b["ok"])
        for k2 in sorted(set(fa) | set(fb)):
            if k2 in ("k_exp", "arearef") or metacheck.is_per_step(k2):
                continue
            x, y = fa.get(k2, Fraction(0)), fb.get(k2, Fraction(0))
            want = x if k2.startswith("rer") else x * kap
            if y != want:
                return [("result does not scale with the energy (power-of-two factor, exact)",
                         {"path": k2, "base": core.fstr(x), "variant": core.fstr(y), "expected": core.fstr(want)})]
        return []
    return rel


def marginal_export_building(rng):
    """on-site electricity production equal to the use at every step except one, where it exceeds it by 1/2048 kWh:
    the annual export is positive and below every 'small energy' constant of the code"""
    b = gen.Building()
    n = rng.choice([1, 3, 12])
    b.n = n
    u = [gen.dy(rng, 64, 64 * 200) for _ in range(n)]
    t = rng.randrange(n)
    p = [x + (Fraction(1, 2048) if s == t else 0) - (gen.dy(rng, 1, 32) if s != t and rng.random() < 0.5 else 0) for s, x in enumerate(u)]
    b.add("CONSUMO", id=1, service=rng.choice(["CAL", "ILU", "ACS"]), carrier="ELECTRICIDAD", values=u)
    b.add("PRODUCCION", id=1, source="EL_INSITU", values=p)
    if rng.random() < 0.5:
        b.add("CONSUMO", id=2, service="CAL", carrier=rng.choice(["GASNATURAL", "BIOMASA"]), values=[gen.dy(rng, 64, 64 * 200) for _ in range(n)])
    b.tags.add("marginal_export")
    return b


def dhw_cogen_building(rng):
    """DHW by a heat pump, a large heating use and cogeneration fed by a nearby carrier: only a small part of the cogenerated
    electricity goes to DHW, so that derived quantity is far smaller than every declared value"""
    b = gen.Building()
    n = rng.choice([1, 2, 12])
    b.n = n
    c = Fraction(rng.choice([1, 2, 3]), 16)
    per = lambda x: [Fraction(x) * c / n] * n
    b.add("DEMANDA", service="ACS", values=per(50))
    b.add("CONSUMO", id=1, service="ACS", carrier="ELECTRICIDAD", values=per(20))
    b.add("CONSUMO", id=1, service="ACS", carrier="EAMBIENTE", values=per(30))
    b.add("CONSUMO", id=2, service="CAL", carrier="ELECTRICIDAD", values=per(rng.choice([2000, 4000])))
    b.add("PRODUCCION", id=3, source="EL_COGEN", values=per(500))
    b.add("CONSUMO", id=3, service="COGEN", carrier=rng.choice(["BIOMASA", "BIOMASADENSIFICADA"]), values=per(1250))
    b.tags.add("dhw_cogen_marginal")
    return b


def partly_covered_heat_pump(rng):
    """a heat pump (or solar thermal system) whose ambient-heat use is only partly covered by the production declared for the same
    system: the automatic completion is the uncovered remainder, step by step — a derived quantity that must scale with the inputs"""
    b = gen.Building()
    n = rng.choice([1, 2, 3, 12])
    b.n = n
    cr, src = rng.choice([("EAMBIENTE", "EAMBIENTE"), ("TERMOSOLAR", "TERMOSOLAR")])
    use = [gen.dy(rng, 64, 64 * 300) for _ in range(n)]
    prod = [x * Fraction(rng.randint(0, 80), 64) for x in use]      # below the use at most steps, above it at some
    b.add("CONSUMO", id=1, service=rng.choice(["CAL", "ACS"]), carrier=cr, values=use)
    b.add("PRODUCCION", id=1, source=src, values=prod)
    b.add("CONSUMO", id=1, service="CAL", carrier="ELECTRICIDAD", values=[x / 3 if False else x / 4 for x in use])
    if rng.random() < 0.5:
        b.add("PRODUCCION", id=2, source="EL_INSITU", values=[gen.dy(rng, 0, 64 * 100) for _ in range(n)])
    b.tags.add("partly_covered_onsite_heat")
    return b


def make_pairs(rng, count):
    pairs = []
    for i in range(max(2, count // 12)):
        fspec, user = {"loc": rng.choice(core.LOCS)}, {}
        k, area, lm = gen.gen_params(rng)
        b = partly_covered_heat_pump(rng)
        base = epflow.EpCase("h%d" % i, {"text": text_of(b)}, fspec, user, [(k, area, False)], tags=b.tags)
        kap = rng.choice([Fraction(1, 128), Fraction(1, 16), Fraction(8), Fraction(1024)])
        vb = metacheck.scale_building(b, kap)
        v = epflow.EpCase("h%dk" % i, {"text": text_of(vb)}, fspec, user, [(k, area, False)], tags=b.tags)
        pairs.append((base, [(v, relate_pow2_exact(kap), "partly covered on-site heat, energy x %s (exact)" % kap)]))
    for i in range(max(2, count // 16)):
        # the part of the cogenerated electricity that goes to DHW crosses 0.01 kWh between the two scales; every declared value
        # stays >= 0.01 kWh
        fspec, user = {"loc": rng.choice(core.LOCS)}, {}
        k, area, lm = gen.gen_params(rng)
        b = dhw_cogen_building(rng)
        if b.n > 2:
            continue
        base = epflow.EpCase("d%d" % i, {"text": text_of(b)}, fspec, user, [(k, area, False)], tags=b.tags, want=["acs"])
        kap = Fraction(1, 64) if b.n == 1 else Fraction(1, 32)
        vb = metacheck.scale_building(b, kap)
        v = epflow.EpCase("d%dk" % i, {"text": text_of(vb)}, fspec, user, [(k, area, False)], tags=b.tags, want=["acs"])
        pairs.append((base, [(v, metacheck.relate_scaled(kap, per_step_scale(kap)), "DHW with cogeneration, energy x %s" % kap)]))
    for i in range(count // 8):
        fspec, user = {"loc": rng.choice(core.LOCS)}, {}
        k, area, lm = gen.gen_params(rng)
        b = marginal_export_building(rng)
        base = epflow.EpCase("m%d" % i, {"text": text_of(b)}, fspec, user, [(k, area, False)], tags=b.tags)
        kap = rng.choice([Fraction(4), Fraction(64), Fraction(4096)])
        vb = metacheck.scale_building(b, kap)
        v = epflow.EpCase("m%dk" % i, {"text": text_of(vb)}, fspec, user, [(k, area, False)], tags=b.tags)
        pairs.append((base, [(v, relate_pow2_exact(kap), "marginal export, energy x %s (exact)" % kap)]))
    for i in range(count):
        fspec, user = gen.gen_factors_spec(rng)
        k, area, lm = gen.gen_params(rng)
        b0 = gen.gen_building(rng, ratio_only=lm, force=rng.choice([set(), {"pv"}, {"chp"}, {"nepb"}, {"hp"}]))
        b = metacheck.scale_building(b0, 64)          # values >= 1 so that every scaled copy stays >= 0.01 kWh
        base = epflow.EpCase("b%d" % i, {"text": text_of(b)}, fspec, user, [(k, area, lm)], tags=b.tags, want=["acs"])
        variants = []
        kap = rng.choice(KAPPAS_EXACT + KAPPAS_EXACT + KAPPAS_APPROX)
        vb = metacheck.scale_building(b, kap)
        v = epflow.EpCase("b%dk" % i, {"text": text_of(vb)}, fspec, user, [(k, area, lm)], tags=b.tags, want=["acs"])
        variants.append((v, metacheck.relate_scaled(kap, per_step_scale(kap)), "energy x %s" % kap))
        # area scaling: per-m2 values divide, everything else equal
        ka = rng.choice([Fraction(1, 2), Fraction(4), Fraction(10)])
        if Fraction(area) * ka < Fraction(2, 1000):
            ka = Fraction(4)      # areas below 0.001 m2 are rejected by design
        va = epflow.EpCase("b%da" % i, {"text": text_of(b)}, fspec, user, [(k, float(Fraction(area) * ka), lm)], tags=b.tags, want=["acs"])

        def rel_area(eb, ev, base_c, var_c, ka=ka):
            a, bb = eb.get("ep", {}), ev.get("ep", {})
            if "ok" not in a or "ok" not in bb:
                ea = a.get("err") or ("ok" if "ok" in a else "?")
                eb2 = bb.get("err") or ("ok" if "ok" in bb else "?")
                return [] if ea == eb2 else [("different outcome when only the area changes", {"base": ea, "variant": eb2})]
            fa, fb = oracles.flat_ep(a["ok"]), oracles.flat_ep(bb["ok"])
            sc = oracles.ep_scale(fa)
            for path, x in fa.items():
                y = fb.get(path)
                if path == "arearef":
                    continue
                if y is None:
                    return [("entry missing after area change", {"path": path})]
                want = x / ka if path.startswith("balance_m2/") else x
                if abs(y - want) > oracles.tol_for(path, fb if path.startswith("balance_m2/") else fa, sc):
                    return [("per-m2 value does not divide by the area factor" if path.startswith("balance_m2/") else
                             "a quantity other than per-m2 changes with the area", {"path": path, "base": core.fstr(x), "variant": core.fstr(y)})]
            return []
        variants.append((va, rel_area, "area x %s" % ka))
        pairs.append((base, variants))
    return pairs


def run(tier, seed):
    return metacheck.run("C11", tier, seed, THEOREMS, make_pairs,
                         "theorem C11_energy: the evaluation of the scaled building is the scaled evaluation (all step records, "
                         "weighted parts, totals; ratios and load matching unchanged) under the domain hypothesis on both sides; "
                         "area law from C04; invariance of the DHW fraction under scaling is established by the differential run only",
                         "structured random buildings with values >= 1 kWh; energy scale factors 1/64, 1/4, 2, 16, 1024 (exact) and "
                         "0.1, 3, 1000 (within tolerance); area factors 1/2, 4, 10; buildings whose annual export is 1/2048 kWh scaled by "
                         "4, 64, 4096 and compared exactly (a power of two commutes with f32 arithmetic); non-trivial = the pair evaluates successfully")
