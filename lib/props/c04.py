"""C04 — Totals equal the sum of their breakdowns; per-m2 values equal totals / area"""
import re
from .. import epcheck, oracles

THEOREMS = ["C04_totals", "C04_epus_by_service", "C04_epus_by_service_carrier", "C04_prod_by_source",
            "C04_used_by_source_by_service", "C04_used_by_source_total", "C04_delivered_exported", "C04_weighted_by_service",
            "C04_area_rows", "C04_area_div", "C04_area_only", "C04_area_indep"]
CONE = re.compile(r"^(balance/|balance_m2/|arearef$|rer|balance_cr/[A-Z0-9]+/(used/epus_an|used/epus_by_srv_an|used/nepus_an|"
                  r"used/cgnus_an|prod/an|prod/by_src_an|prod/epus_an|prod/epus_by_src_an|prod/epus_by_srv_by_src_an|"
                  r"del/|exp/an|exp/grid_an|exp/nepus_an|we/))")


def select(path):
    return bool(CONE.match(path)) and not re.search(r"_t/\d+$", path)


def nontrivial(ep):
    """at least two carriers and two services are present"""
    return len(ep["balance_cr"]) >= 2 and len(ep["balance"]["used"]["epus_by_srv"]) >= 2


def run(tier, seed):
    from .. import epflow
    return epcheck.run("C04", tier, seed, THEOREMS, select, oracles.oracle_c04, nontrivial,
                       case_gen=lambda r, k, prefix="c": epflow.gen_cases(r, k, multi_eval="area", prefix=prefix, tweak=epflow.tiny_use),
                       multi_eval="area", n_model=40 if tier == "quick" else 300,
                       level_note="totals are sums over carriers by definition of the model (tied to the implementation's "
                                  "accumulators by correspondence); breakdown identities and area laws are theorems")
