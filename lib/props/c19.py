"""C19 — CLI options beat file metadata, which beats defaults; bad values are refused"""
import hashlib
import itertools
import json
import os
import re
from collections import Counter
from fractions import Fraction

from .. import core, check, cliflow, epcheck

THEOREMS = ["C19_precedence", "C19_refuses", "C19_exit_codes", "C19_runs_when_valid", "C19_ranges"]

BASE = """1, CONSUMO, CAL, RED1, 100, 50
2, CONSUMO, ACS, RED2, 30, 20
3, CONSUMO, ILU, ELECTRICIDAD, 40, 40
3, PRODUCCION, EL_INSITU, 60, 10
"""
FACTORS_FILE = """#META CTE_FUENTE: TEST
ELECTRICIDAD, RED, SUMINISTRO, A, 0.500, 2.000, 0.420
RED1, RED, SUMINISTRO, A, 0.100, 1.100, 0.200
"""

KEXP_VALUES = ["0", "1", "0.25", "0.5", "-0.1", "1.0001", "abc", "", "0.2505", "0.7495"]   # the last two: close to a metadata value, not equal
AREA_VALUES = ["2", "100.456", "0.0011", "0.001", "0", "-3", "abc", "", "0.002", "2.0005", "100.4565"]   # the last three: within 1e-3 of a metadata value, not equal
RED_VALUES = [("0.1", "0.9", "0.05"), ("1.5", "0", "0.3"), ("x", "1", "1")]
RED_META = ["0.2, 0.8, 0.1", "zzz", "0.3, 0.7"]


def rnc_lists(v):
    """serde writes RenNrenCo2 as an object, the runner as a list"""
    if isinstance(v, dict):
        if set(v.keys()) == {"ren", "nren", "co2"}:
            return [v["ren"], v["nren"], v["co2"]]
        return {k: rnc_lists(x) for k, x in v.items()}
    if isinstance(v, list):
        return [rnc_lists(x) for x in v]
    return v


def tri_num(txt, parse):
    if txt is None:
        return ("Absent", None)
    v = parse.get(txt.strip())
    if v is None:
        return ("Invalid", None)
    return ("Given", Fraction(txt.strip()))   # the decimal the text denotes (the boundary literals 0, 1, 0.001 are exact in that reading)


def g_arg(t):
    if t[0] == "Given":
        return "(Given %s)" % core.gq(t[1])
    return t[0]


def g_argr(t):
    if t[0] == "Given":
        return "(Given (mkRNC %s %s %s))" % tuple(core.gq(x) for x in t[1])
    return t[0]


def tri_red_cli(vals, parse):
    if vals is None:
        return ("Absent", None)
    ps = [parse.get(v.strip()) for v in vals]
    if any(p is None for p in ps):
        return ("Invalid", None)
    return ("Given", [Fraction(v.strip()) for v in vals])


def tri_red_meta(txt, parse):
    if txt is None:
        return ("Absent", None)
    parts = [x.strip() for x in txt.strip().strip("()").split(",")]
    ps = [parse.get(x) for x in parts]
    if len(parts) != 3 or any(p is None for p in ps):
        return ("Invalid", None)
    return ("Given", [Fraction(x) for x in parts])


def gen_configs(rng, count):
    cfgs = []
    # the full lattice {given / not given} x {present / absent / invalid}, values drawn at random
    lattice = list(itertools.product([False, True], ["absent", "valid", "invalid"], [False, True], ["absent", "valid", "invalid"]))
    rng.shuffle(lattice)
    i = 0
    while len(cfgs) < count:
        if i < len(lattice):
            kc, km, ac, am = lattice[i]
        else:      # after one full pass over the lattice: mostly-valid configurations
            st = lambda: rng.choices(["absent", "valid", "invalid"], [0.35, 0.53, 0.12])[0]
            kc, km, ac, am = rng.random() < 0.5, st(), rng.random() < 0.5, st()
        i += 1
        c = {}
        pick = lambda good, bad, st: None if st == "absent" else rng.choice(good if st == "valid" else bad)
        c["k_cli"] = (rng.choice(KEXP_VALUES) if rng.random() < 0.4 else rng.choice(KEXP_VALUES[:4])) if kc else None
        c["k_meta"] = pick(["0", "1", "0.25", "0.5", "0.75"], ["-0.1", "1.0001", "abc", "2"], km)
        c["a_cli"] = (rng.choice(AREA_VALUES) if rng.random() < 0.45 else rng.choice(AREA_VALUES[:3])) if ac else None
        c["a_meta"] = pick(["2", "100.456", "0.0011", "37.5", "0.0025"], ["0.001", "0", "-3", "abc"], am)
        c["red1_cli"] = rng.choice(RED_VALUES[:2] if rng.random() < 0.85 else RED_VALUES) if rng.random() < 0.35 else None
        c["red1_meta"] = rng.choice(RED_META[:1] if rng.random() < 0.8 else RED_META) if rng.random() < 0.4 else None
        c["red2_cli"] = rng.choice(RED_VALUES[:2]) if rng.random() < 0.25 else None
        c["red2_meta"] = rng.choice(RED_META[:1]) if rng.random() < 0.3 else None
        src = rng.choice(["file", "loc_cli", "loc_meta", "loc_meta_bad", "both_loc", "none", "file_and_locmeta"])
        c["file"] = src in ("file", "file_and_locmeta")
        c["loc_cli"] = "PENINSULA" if src in ("loc_cli", "both_loc") else None
        c["loc_meta"] = {"loc_meta": "CANARIAS", "both_loc": "BALEARES", "loc_meta_bad": "MARTE", "file_and_locmeta": "CANARIAS"}.get(src)
        cfgs.append(c)
    return cfgs


def run(tier, seed):
    prop = "C19"
    R = check.Result(prop, tier, seed)
    rng = check.make_rng(prop, seed)
    n_cfg = 220 if tier == "quick" else 2500
    meta = {"coverage": {"checker_cmd": "make -C coq theories/Props/C19.vo && coqc <Print Assumptions> (+ coqchk in thorough tier)",
                         "trusted_base": epcheck.TRUSTED_BASE + ["clap's own parsing (exit 1) and process exit are observed, not modelled"],
                         "rule": "every combination of {option given / not given} x {metadata present / absent / invalid} for k_exp and the "
                                 "area (36 lattice points, cycled), RED1/RED2 options and metadata, factor source file / -l / metadata "
                                 "location / none; values 0, 1, 0.25, 0.5, -0.1, 1.0001, 0.001, 0.0011, 100.456, non-numeric and empty text; "
                                 "the binary built from /repo is run on each and compared with the Coq decision model; non-trivial = the run produces a result"},
            "assumptions": ["the literals NaN / inf are outside the claim"]}
    try:
        core.build_runner()
        core.build_cli()
    except core.BuildError as e:
        R.harness_errors.append(str(e)[-1500:])
        R.broken.append(("build of /repo's working tree failed", str(e)[-800:]))
        return R.finish(meta)
    ok, rep = check.proof_obligations(prop, THEOREMS)
    R.proof = rep
    if not ok:
        R.broken.append(("proof obligations", {k: rep.get(k) for k in ("failed", "failing_location", "forbidden_vernacular",
                                                                         "make_log_tail", "assumption_check_error", "assumptions")}))
    if tier == "thorough" and ok:
        cok, axioms, tail = check.coqchk(prop)
        meta["coverage"]["coqchk"] = {"ok": cok, "axioms": axioms}
        if not cok or axioms:
            R.broken.append(("coqchk", {"ok": cok, "axioms": axioms, "tail": tail}))
    cfgs = gen_configs(rng, n_cfg)
    # parse oracle for every token
    toks = set()
    for c in cfgs:
        for k in ("k_cli", "k_meta", "a_cli", "a_meta"):
            if c[k] is not None:
                toks.add(c[k].strip())
        for k in ("red1_cli", "red2_cli"):
            if c[k]:
                toks.update(x.strip() for x in c[k])
        for k in ("red1_meta", "red2_meta"):
            if c[k]:
                toks.update(x.strip() for x in c[k].strip("()").split(","))
    orc = core.run_jobs([{"id": "orc", "parse_f32": sorted(toks)}])[0]["parse_f32"]
    parse = {t: (None if v is None or isinstance(v, str) else v) for t, v in orc}
    # model predictions
    items = []
    for i, c in enumerate(cfgs):
        expr = ("resolve %s %s %s %s %s %s %s %s %s %s %s" % (
            g_arg(tri_num(c["k_cli"], parse)), g_arg(tri_num(c["a_cli"], parse)),
            g_argr(tri_red_cli(c["red1_cli"], parse)), g_argr(tri_red_meta(c["red1_meta"], parse)),
            g_argr(tri_red_cli(c["red2_cli"], parse)), g_argr(tri_red_meta(c["red2_meta"], parse)),
            "true" if c["file"] else "false", "true" if c["loc_cli"] else "false",
            "Absent" if c["loc_meta"] is None else ("(Given tt)" if c["loc_meta"] in core.LOCS else "Invalid"),
            g_arg(tri_num(c["a_meta"], parse)), g_arg(tri_num(c["k_meta"], parse))))
        items.append(("cfg%d" % i, "", "cli_rows (%s)" % expr))
    out, errs = core.run_coq_cases(prop, items, header="From Cteepbd Require Import Model.Cli.\n" + core.CASE_HEADER + CLI_ROWS)
    R.harness_errors.extend(errs)
    d = cliflow.workdir("c19")
    stats = Counter()
    seen = set()
    lib_jobs, cli_js = [], {}
    try:
        for i, c in enumerate(cfgs):
            t = out.get("cfg%d" % i)
            if t is None:
                continue
            pred = core.parse_outcome(t)
            comp = ""
            for key, mk in (("a_meta", "CTE_AREAREF"), ("k_meta", "CTE_KEXP"), ("loc_meta", "CTE_LOCALIZACION"),
                            ("red1_meta", "CTE_RED1"), ("red2_meta", "CTE_RED2")):
                if c[key] is not None:
                    comp += "#META %s: %s\n" % (mk, c[key])
            comp += BASE
            cp = os.path.join(d, "c%d.csv" % i)
            open(cp, "w").write(comp)
            args = ["-c", cp, "--json", os.path.join(d, "o%d.json" % i), "--oc", os.path.join(d, "oc%d.csv" % i)]
            if c["file"]:
                fp = os.path.join(d, "f%d.csv" % i)
                open(fp, "w").write(FACTORS_FILE + "RED2, RED, SUMINISTRO, A, 0.300, 1.000, 0.100\n")
                args += ["-f", fp]
            if c["loc_cli"]:
                args += ["-l", c["loc_cli"]]
            if c["k_cli"] is not None:
                args += ["-k", c["k_cli"]] if not c["k_cli"].startswith("-") else ["--kexp=%s" % c["k_cli"]]
            if c["a_cli"] is not None:
                args += ["-a", c["a_cli"]] if not c["a_cli"].startswith("-") else ["--arearef=%s" % c["a_cli"]]
            for key, opt in (("red1_cli", "--red1"), ("red2_cli", "--red2")):
                if c[key]:
                    args += [opt] + list(c[key])
            js = None
            r = cliflow.run_cli(args, d)
            R.evaluations += 1
            what = None
            detail = {"args": args[1:2] + args[6:], "components_head": comp[:300], "exit": r["exit"], "stderr": r["stderr"][-300:]}
            if r["hang"]:
                what = "the program hangs"
            elif pred[0] == "err":       # model: Exits code
                code = int(pred[1].split(":")[1])
                stats["model_exit_%d" % code] += 1
                if r["exit"] != code:
                    what = "bad or missing value not refused with the documented exit code (model: exit %d)" % code
                elif not r["stderr"].strip():
                    what = "refusal without a message on stderr"
                elif os.path.exists(os.path.join(d, "o%d.json" % i)):
                    what = "a result file was written although the run was refused"
            elif pred[0] == "ok":
                stats["model_runs"] += 1
                rows = pred[1]
                if r["exit"] != 0:
                    what = "valid configuration refused (exit %s)" % r["exit"]
                else:
                    seen.add(hashlib.sha1(json.dumps(c, sort_keys=True).encode()).hexdigest())
                    try:
                        js = json.load(open(os.path.join(d, "o%d.json" % i)))
                    except Exception as e:
                        js = None
                        what = "JSON result missing or unreadable: %s" % e
                    if js is not None:
                        org = {0: "usuario", 1: "metadatos", 2: "predefinido"}
                        ao, av, ko, kv = org[int(rows["area_origin"])], rows["area"], org[int(rows["kexp_origin"])], rows["kexp"]
                        if abs(Fraction(js["arearef"]) - av) > Fraction(1, 10 ** 6) * max(1, av):
                            what = "reference area used (%s) is not the %s value %s" % (js["arearef"], ao, core.fstr(av))
                        elif abs(Fraction(js["k_exp"]) - kv) > Fraction(1, 10 ** 6):
                            what = "k_exp used (%s) is not the %s value %s" % (js["k_exp"], ko, core.fstr(kv))
                        elif not re.search(r"rea de referencia \(%s\) \[m2\]: " % ao, r["stdout"]):
                            what = "reference area not echoed with origin '%s'" % ao
                        elif not re.search(r"Factor de exportaci.n \(%s\) \[-\]: " % ko, r["stdout"]):
                            what = "k_exp not echoed with origin '%s'" % ko
                        else:
                            src = {0: "archivo", 1: "usuario", 2: "metadatos"}[int(rows["fsource"])]
                            if not re.search(r"Factores de paso \(%s\)" % src, r["stdout"]):
                                what = "factor source is not '%s'" % src
                        # RED1 / RED2 used
                        if what is None:
                            for name, cr in (("red1", "RED1"), ("red2", "RED2")):
                                if ("%s/0" % name) in rows:
                                    want = [rows["%s/%d" % (name, j)] for j in range(3)]
                                    got = [f for f in js["wfactors"]["wdata"] if f["carrier"] == cr and f["source"] == "RED"]
                                    if not got or any(abs(Fraction(got[0][k2]) - w) > Fraction(1, 1000) for k2, w in zip(("ren", "nren", "co2"), want)):
                                        what = "%s factor used is not the one chosen by precedence" % cr
                                        detail["want"] = [core.fstr(w) for w in want]
                                        detail["got"] = got[:1]
                        # recorded metadata of the emitted components
                        if what is None:
                            try:
                                oc = open(os.path.join(d, "oc%d.csv" % i)).read()
                            except OSError:
                                oc = ""
                            m_a = re.search(r"#META CTE_AREAREF: (\S+)", oc)
                            m_k = re.search(r"#META CTE_KEXP: (\S+)", oc)
                            if not m_a or abs(Fraction(m_a.group(1)) - av) > Fraction(1, 10 ** 6) * max(1, av):
                                what = "reference area recorded in the emitted components is not the value used"
                                detail["recorded"] = m_a.group(1) if m_a else None
                            elif not m_k or abs(Fraction(m_k.group(1)) - kv) > Fraction(1, 10 ** 6):
                                what = "k_exp recorded in the emitted components is not the value used"
                                detail["recorded"] = m_k.group(1) if m_k else None
                            else:
                                # the location the factors come from, when they come from a location
                                used_loc = c["loc_cli"] if int(rows["fsource"]) == 1 else (c["loc_meta"] if int(rows["fsource"]) == 2 else None)
                                m_l = re.search(r"#META CTE_LOCALIZACION: (\S+)", oc)
                                if used_loc and (not m_l or m_l.group(1) != used_loc):
                                    what = "the location recorded in the emitted components is not the one used"
                                    detail["recorded"] = m_l.group(1) if m_l else None
                                    detail["used"] = used_loc
                                for name, key in (("red1", "CTE_RED1"), ("red2", "CTE_RED2")):
                                    if what is None and ("%s/0" % name) in rows:
                                        m_r = re.search(r"#META %s: ([^\n]+)" % key, oc)
                                        want = [rows["%s/%d" % (name, j)] for j in range(3)]
                                        try:
                                            got = [Fraction(x.strip()) for x in m_r.group(1).split(",")] if m_r else None
                                        except ValueError:
                                            got = None
                                        if not got or len(got) != 3 or any(abs(g - w) > Fraction(1, 1000) for g, w in zip(got, want)):
                                            what = "%s recorded in the emitted components is not the factor used" % key
                                            detail["recorded"] = m_r.group(1) if m_r else None
            else:
                R.harness_errors.append("unparsable model outcome for cfg%d: %s" % (i, str(pred)[:100]))
            if what is None and pred[0] == "ok" and r["exit"] == 0 and js is not None:
                lib_jobs.append({"id": "cfg%d" % i, "comps": {"json": js["components"]}, "factors": {"json": js["wfactors"]},
                                 "evals": [[core.fstr(kv), core.fstr(av), False]]})
                cli_js["cfg%d" % i] = (js, c, detail)
            if what:
                if len(R.violations) < 3:
                    R.violations.append((what, {"what": what, "detail": detail, "config": c,
                                                "replay_cmd": "write the components text (metadata lines + BASE of lib/props/c19.py) and run %s <args>" % core.CLI_BIN}))
            else:
                R.cases_validated += 1
    finally:
        cliflow.cleanup(d)
    # "is the one the results are computed with": the library, called with the predicted k_exp and area on the
    # components and factors the program reports, must give the balance the program reports
    for res in core.run_jobs(lib_jobs) if lib_jobs else []:
        js, c, detail = cli_js[res["id"]]
        R.evaluations += 1
        ev = (res.get("evals") or [{}])[0].get("ep", {})
        if "ok" not in ev:
            R.harness_errors.append("library evaluation failed for %s: %s" % (res["id"], str(ev)[:200]))
            continue
        bad = None
        for part in ("balance", "balance_m2", "rer", "rer_nrb", "rer_onst"):
            a = core.flatten(ev["ok"][part], part)
            b = core.flatten(rnc_lists(js[part]), part)
            for path, va in a.items():
                vb = b.get(path, Fraction(0))
                if isinstance(va, Fraction) and isinstance(vb, Fraction) and abs(va - vb) > Fraction(1, 10 ** 4) * abs(va) + Fraction(6, 10 ** 4):   # the JSON writer rounds to 3 decimals
                    bad = (path, core.fstr(va), core.fstr(vb))
                    break
            if bad:
                break
        if bad:
            what = "results are not computed with the selected k_exp / area (%s: library %s, program %s)" % bad
            R.cases_validated -= 1
            if len(R.violations) < 3:
                R.violations.append((what, {"what": what, "detail": detail, "config": c}))
    R.distinct_nontrivial = len(seen)
    R.stats["configs"] = dict(stats)
    R.samples.append({"config": cfgs[0]})
    return R.finish(meta)


CLI_ROWS = """
Definition origin_code (o : origin) : Qc := match o with Usuario => 0%Qc | Metadatos => Q 1 1 | Predefinido => Q 2 1 end.
Definition fsource_code (o : fsource) : Qc := match o with FromFile => 0%Qc | FromLocCli => Q 1 1 | FromLocMeta => Q 2 1 end.
Definition cli_rows (o : cli_outcome) : outcome :=
  match o with
  | Exits c => OutErr (String.append "Exit:" (if Z.eqb c 64 then "64" else if Z.eqb c 65 then "65" else "other"))
  | Runs s => OutOk (map out_row (
      [("area_origin", origin_code (fst (st_area s))); ("area", snd (st_area s));
       ("kexp_origin", origin_code (fst (st_kexp s))); ("kexp", snd (st_kexp s));
       ("fsource", fsource_code (st_fsource s))]
      ++ (match st_red1 s with Some r => rn "red1" r | None => [] end)
      ++ (match st_red2 s with Some r => rn "red2" r | None => [] end)))
  end.
"""
