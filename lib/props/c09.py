"""C09 — Annual results do not depend on how time is laid out"""
from fractions import Fraction
from .. import core, epflow, gen, metacheck, oracles
from .c11 import text_of

THEOREMS = ["C09_perm", "C09_perm_steps", "C09_perm_annual", "C09_subdivide", "C09_subdivide_annual", "C09_same_results",
            "C09_normalize_perm", "C09_normalize_subdivide", "C09_perm_declared", "C09_subdivide_declared",
            "C09_subdivide_any_values"]

VEC_FIELDS = [("used", "epus_t"), ("used", "nepus_t"), ("used", "cgnus_t"), ("prod", "t"), ("prod", "epus_t"),
              ("exp", "t"), ("exp", "grid_t"), ("exp", "nepus_t"), ("del", "grid_t"), ("del", "onst_t")]


def per_step(mapper, extensive_factor, label):
    """mapper(list) -> expected list for the variant (permuted or subdivided); f_match is intensive"""
    def f(a, b, sc, var):
        for cr, ba in a["balance_cr"].items():
            bb = b["balance_cr"].get(cr)
            if bb is None:
                return [("carrier missing in the variant", {"carrier": cr})]
            want = mapper([Fraction(x) for x in ba["f_match"]], False)
            got = [Fraction(x) for x in bb["f_match"]]
            if len(want) != len(got) or any(abs(x - y) > Fraction(1, 10000) for x, y in zip(want, got)):
                return [("f_match does not follow the %s" % label, {"carrier": cr})]
            for grp, key in VEC_FIELDS:
                want = mapper([Fraction(x) for x in ba[grp][key]], True)
                got = [Fraction(x) for x in bb[grp][key]]
                if len(want) != len(got) or any(abs(x - y) > oracles._tol(sc) for x, y in zip(want, got)):
                    return [("per-step vector does not follow the %s" % label, {"carrier": cr, "field": grp + "." + key})]
        return []
    return f


def make_pairs(rng, count):
    pairs = []
    for i in range(count):
        fspec, user = gen.gen_factors_spec(rng)
        k, area, lm = gen.gen_params(rng)
        n = rng.choice([2, 3, 3, 12])
        b0 = gen.gen_building(rng, n=n, ratio_only=lm, force=rng.choice([set(), {"pv"}, {"chp"}, {"nepb"}, {"hp"}, {"pv", "chp"}]))
        # most buildings get values >= 1 kWh (sub-steps of comfortable size); the others keep values down to 1/64 kWh, whose
        # sub-steps fall below 1e-3 kWh: nothing in the evaluation may compare an energy with an absolute threshold (fix c3bd83b)
        small_values = rng.random() < 0.3
        b = b0 if small_values else metacheck.scale_building(b0, 64)
        if small_values:
            b.tags.add("small_values")
        if rng.random() < 0.3:
            # a two-service system whose auxiliary energy is shared by its output energy, nearly idle at some steps: the output
            # energy only enters through ratios, which subdivision leaves unchanged however small the sub-step values get
            small = [Fraction(rng.randint(1, 8), 1024) if rng.random() < 0.6 else Fraction(rng.randint(64, 6400), 64) for _ in range(n)]
            if rng.random() < 0.5:
                # idle steps: the system delivers nothing at all while its auxiliary energy is still declared (stand-by): whatever
                # the rule for those steps is, it may not look at the neighbouring steps
                idle = rng.sample(range(n), rng.randint(1, max(1, n // 3)))
                small = [0 if t in idle else x for t, x in enumerate(small)]
                b.tags.add("aux_system_with_idle_steps")
            b.add("CONSUMO", id=77, service="CAL", carrier="ELECTRICIDAD", values=gen.vec(rng, n, pzero=0.0, hi=64 * 100))
            b.add("CONSUMO", id=77, service="ACS", carrier="ELECTRICIDAD", values=gen.vec(rng, n, pzero=0.0, hi=64 * 100))
            b.add("SALIDA", id=77, service="CAL", values=small)
            b.add("SALIDA", id=77, service="ACS", values=[x * rng.choice([1, 2, 3]) for x in small])
            b.add("AUX", id=77, values=gen.vec(rng, n, pzero=0.0, hi=64 * 20))
            b.tags.add("aux_shared_by_small_outputs")
        base = epflow.EpCase("b%d" % i, {"text": text_of(b)}, fspec, user, [(k, area, lm)], tags=b.tags)
        variants = []
        sigma = list(range(n))
        rng.shuffle(sigma)
        pb = metacheck.clone_building(b)
        for _, kw in pb.lines:
            kw["values"] = [kw["values"][j] for j in sigma]
        v1 = epflow.EpCase("b%dp" % i, {"text": text_of(pb)}, fspec, user, [(k, area, lm)], tags=b.tags)
        variants.append((v1, metacheck.relate_scaled(Fraction(1), per_step(lambda v, ext, sigma=sigma: [v[j] for j in sigma], 1, "permutation")),
                         "permutation of %d steps" % n))
        m = rng.choice([2, 3, 4, 7] + ([24, 30] if n <= 3 else []))
        if n * m <= 96:
            sb = metacheck.clone_building(b)
            for _, kw in sb.lines:
                kw["values"] = [Fraction(x) / m for x in kw["values"] for _ in range(m)]
            v2 = epflow.EpCase("b%ds" % i, {"text": text_of(sb)}, fspec, user, [(k, area, lm)], tags=b.tags)
            variants.append((v2, metacheck.relate_scaled(Fraction(1), per_step(lambda v, ext, m=m: [(x / m if ext else x) for x in v for _ in range(m)], 1, "subdivision")),
                             "subdivision by %d" % m))
        pairs.append((base, variants))
    return pairs


def run(tier, seed):
    return metacheck.run("C09", tier, seed, THEOREMS, make_pairs,
                         "theorems C09_perm / C09_subdivide: the evaluation of the re-laid-out building has, carrier by carrier, the "
                         "same weighted parts and structure; step records are permuted / replaced by m scaled copies (domain "
                         "hypothesis on both layouts for the subdivision)",
                         "structured random buildings (2, 3, 12 steps; cogeneration, load matching, nEPB) with values >= 1 kWh; random "
                         "permutations of the steps and subdivision by m in {2,3,4,7,24,30}, values down to 1/64 kWh before subdivision; annual fields compared within tolerance, per-step "
                         "vectors against the permuted / subdivided originals; non-trivial = the pair evaluates successfully",
                         n_pairs=300 if tier == "quick" else 6000)
