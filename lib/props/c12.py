"""C12 — On-site electricity is used first; load matching can only lower self-use"""
import re
from .. import tablecheck, epcheck, oracles

THEOREMS = ["C12_priority", "C12_priority_table", "C12_single_source", "C12_fmatch",
            "C12_lm_monotone_step", "C12_lm_monotone_annual"]
CONE = re.compile(r"^balance_cr/[A-Z0-9]+/(f_match/|prod/by_src_t/|prod/epus_by_src_t/|prod/epus_t/|used/epus_t/|del/grid_t/)")


def select(path):
    return bool(CONE.match(path))


def nontrivial(ep):
    """electricity has on-site or cogenerated production and EPB use"""
    b = ep["balance_cr"].get("ELECTRICIDAD")
    return bool(b and b["prod"]["an"] > 0 and b["used"]["epus_an"] > 0)


def run(tier, seed):
    return epcheck.run("C12", tier, seed, THEOREMS, select, oracles.oracle_c12, nontrivial,
                       gen_force={"pv"}, multi_eval="lm", extra_stage=tablecheck.stage,
                       n_model=32 if tier == "quick" else 300,
                       level_note="priority allocation, load matching formula/range and monotonicity proved for all "
                                  "component lists; ProdSource::get_priorities pinned by C12_priority_table")
