"""C16 — No input makes the library panic or the program crash or hang"""
import hashlib
import json
import os
import shutil
from collections import Counter
from fractions import Fraction

from .. import core, check, cliflow, epcheck, gen, panicscan, parseflow as pf, textflow as tf

THEOREMS = ["C16_components_reader_never_panics", "C16_factors_reader_never_panics", "C16_line_readers_never_panic",
            "C16_meta_reader_guarded", "C16_accepted_components_have_one_length", "C16_normalisation_keeps_the_length"]

FN = {"used": ("parse_used", "(energy_cmp qs_eqb)", pf.g_pres_energy), "prod": ("parse_prod", "(energy_cmp qs_eqb)", pf.g_pres_energy),
      "aux": ("parse_aux", "(energy_cmp qs_eqb)", pf.g_pres_energy), "out": ("parse_out", "(energy_cmp qs_eqb)", pf.g_pres_energy),
      "need": ("parse_need", "need_eqb", pf.g_pres_need), "meta": ("parse_meta", "meta_eqb", pf.g_pres_meta),
      "factor": ("parse_factor", "factor_eqb", pf.g_pres_factor)}

OK_EXITS = {0, 1, 64, 65, 73, 74}


def find_panics(v, path=""):
    """paths of every {"panic": ...} in a runner answer"""
    out = []
    if isinstance(v, dict):
        if "panic" in v and len(v) <= 2:
            out.append((path, str(v["panic"])[:200]))
        for k, x in v.items():
            out.extend(find_panics(x, path + "/" + k))
    elif isinstance(v, list):
        for i, x in enumerate(v):
            out.extend(find_panics(x, "%s/%d" % (path, i)))
    return out


def line_requests(rng, n_buildings, n_soup):
    reqs = []
    for _ in range(n_buildings):
        lines = pf.valid_lines(rng)
        rng.shuffle(lines)
        nf = 0
        for kind, line in lines:
            if kind == "factor":
                nf += 1
                if nf > 6:
                    continue
            reqs.append([kind, line])
            for _ in range(2):
                reqs.append([kind, pf.clean_line(pf.corrupt_line(rng, line))])
    for _ in range(n_soup):
        reqs.append([rng.choice(["used", "prod", "aux", "out", "need", "factor"]), pf.clean_line(pf.soup(rng, nl=False))])
    # the metadata reader is only ever handed lines that start (after trimming) with #META or #CTE_
    return [r for r in reqs if r[0] != "meta" or r[1].strip().startswith(("#META", "#CTE_"))]


def file_inputs(rng, count):
    """(components text, factors text or None (-> location), tag)"""
    out = []
    for i in range(count):
        txt, b = tf.render_case_text(rng)
        ftxt = gen.gen_user_factors_text(rng) if rng.random() < 0.5 else None
        r = rng.random()
        tag = "valid"
        if rng.random() < 0.4:
            if rng.random() < 0.5:
                txt = pf.valid_soup_file(rng)
                tag = "valid_shared_ids"
            else:
                txt = pf.dhw_shared_id_file(rng)
                tag = "valid_dhw_shared_id"
            r = 1.0
        if r < 0.45:
            txt = pf.corrupt_file(rng, txt)
            tag = "corrupt_components"
        elif r < 0.55:
            txt = pf.soup(rng)
            tag = "soup_components"
        elif r < 0.75 and ftxt is not None:
            ftxt = pf.corrupt_file(rng, ftxt) if rng.random() < 0.7 else pf.soup(rng)
            tag = "corrupt_factors"
        out.append((txt, ftxt, tag))
    # one value more or one value fewer on each line in turn of a file that has every kind of line (a multi-service system with
    # auxiliary and output energy, DHW demand, cogeneration, on-site production): every length check the reader skips is a
    # length assertion waiting further down
    for li in range(len(LENGTH_BASE)):
        for how in ("short", "long", "single"):
            lines = list(LENGTH_BASE)
            head, vals = lines[li].rsplit(", ", 3)[0], lines[li].rsplit(", ", 3)[1:]
            vals = vals[:-1] if how == "short" else vals + ["7.5"] if how == "long" else vals[:1]
            lines[li] = ", ".join([head] + vals)
            out.append(("\n".join(lines) + "\n", None, "one_line_of_another_length"))
    return out


LENGTH_BASE = [
    "1, CONSUMO, CAL, GASNATURAL, 10.0, 10.0, 10.0",
    "1, CONSUMO, ACS, GASNATURAL, 5.0, 5.0, 5.0",
    "1, AUX, 1.0, 1.0, 1.0",
    "1, SALIDA, CAL, 27.0, 9.0, 9.0",
    "1, SALIDA, ACS, 13.0, 4.0, 4.0",
    "2, CONSUMO, REF, ELECTRICIDAD, 20.0, 30.0, 40.0",
    "2, PRODUCCION, EL_INSITU, 15.0, 35.0, 20.0",
    "3, CONSUMO, COGEN, GASNATURAL, 30.0, 30.0, 30.0",
    "3, PRODUCCION, EL_COGEN, 12.0, 12.0, 12.0",
    "4, CONSUMO, ACS, EAMBIENTE, 8.0, 8.0, 8.0",
    "4, PRODUCCION, EAMBIENTE, 4.0, 9.0, 8.0",
    "DEMANDA, ACS, 20.0, 20.0, 20.0",
]


def run(tier, seed):
    prop = "C16"
    R = check.Result(prop, tier, seed)
    rng = check.make_rng(prop, seed)
    quick = tier == "quick"
    meta = {"coverage": {"checker_cmd": "make -C coq theories/Props/C16.vo && coqc <Print Assumptions> (+ coqchk in thorough tier)",
                         "trusted_base": epcheck.TRUSTED_BASE + [
                             "the panic-site enumeration (lib/panicscan.py: unwrap, expect, panic!, unreachable!, assert*, indexing and "
                             "slicing, exit) and its reviewed list panic_sites.json",
                             "the stages after reading are total functions in the model: their panic-freedom in the code is fuzzed, not proved",
                             "process-level behaviour (exit status, signals, hangs) is observed on the binary"],
                         "rule": "record readers: valid lines of every kind, each corrupted twice (field dropped / duplicated / replaced / "
                                 "swapped / inserted, truncation, Unicode white space, stray #, case), and token soups, model outcome "
                                 "(value, error kind, panic) compared with FromStr of the record type; files: valid / corrupted / soup "
                                 "components and factor files through parse, normalise, strip, balance, DHW fraction and the three "
                                 "formatters in-process, and through the cteepbd binary with numeric options from the same vocabulary; "
                                 "non-trivial = distinct inputs"},
            "assumptions": []}
    try:
        core.build_runner()
        core.build_cli()
    except core.BuildError as e:
        R.harness_errors.append(str(e)[-1500:])
        R.broken.append(("build of /repo's working tree failed", str(e)[-800:]))
        return R.finish(meta)
    ok, rep = check.proof_obligations(prop, THEOREMS, extra_targets=["theories/Model/ParseCheck.vo"])
    R.proof = rep
    if not ok:
        R.broken.append(("proof obligations", {k: rep.get(k) for k in ("failed", "failing_location", "forbidden_vernacular",
                                                                         "make_log_tail", "assumption_check_error", "assumptions")}))
    if tier == "thorough" and ok:
        cok, axioms, tail = check.coqchk(prop)
        meta["coverage"]["coqchk"] = {"ok": cok, "axioms": axioms}
        if not cok or axioms:
            R.broken.append(("coqchk", {"ok": cok, "axioms": axioms, "tail": tail}))
    stats = Counter()
    seen = set()

    # ---------------------------------------------------------------- panic sites of the tree against the reviewed list
    unlisted, gone, total = panicscan.check()
    stats["panic_sites"] = total
    meta["coverage"]["panic_sites"] = {"in_tree": total, "unlisted": len(unlisted), "listed_but_gone": len(gone)}
    if unlisted:
        R.broken.append(("panic site not covered by the no-panic argument (panic_sites.json)", unlisted[:10]))

    # ---------------------------------------------------------------- record readers: model vs FromStr
    reqs = line_requests(rng, 10 if quick else 150, 80 if quick else 1500)
    res = core.run_jobs([{"id": "p%d" % i, "parse_lines": reqs[i::8]} for i in range(8)])
    flat = []
    for i, r in enumerate(res):
        for q, a in zip(reqs[i::8], r.get("parse_lines", [])):
            flat.append((q, a))
    items = []
    for i, ((kind, line), a) in enumerate(flat):
        fn, eq, gp = FN[kind]
        items.append(("l%d" % i, "", "verdict %s (%s %s) %s" % (eq, fn, pf.u8(line), gp(a))))
    out, errs = core.run_coq_cases(prop, items, header=pf.HEADER)
    R.harness_errors.extend(errs)
    for i, ((kind, line), a) in enumerate(flat):
        t = out.get("l%d" % i)
        if t is None:
            continue
        R.evaluations += 1
        cls = pf.impl_class(a)
        stats["line_%s_%s" % (kind, cls)] += 1
        if cls == "PANIC":
            R.violations.append(("a record reader panics", {"what": "FromStr of a record type panics", "kind": kind, "line": line,
                                                            "panic": a.get("panic")}))
            continue
        v = pf.parse_verdict(t)
        if v is None:
            R.harness_errors.append("unparsable verdict for line %d: %s" % (i, t[:120]))
        elif v[0]:
            R.cases_validated += 1
            seen.add(hashlib.sha1(line.encode("utf-8", "surrogatepass")).hexdigest())
        else:
            R.broken.append(("correspondence Model.Parse.%s vs FromStr" % FN[kind][0],
                             {"line": line, "implementation": json.dumps(a, ensure_ascii=False)[:300], "model_outcome": v[1]}))

    # ---------------------------------------------------------------- files in-process
    files = file_inputs(rng, 120 if quick else 3000)
    jobs = []
    for i, (txt, ftxt, tag) in enumerate(files):
        k = rng.choice(["0", "0.5", "1", "-1", "2", "NaN", "inf", "1e39"])
        area = rng.choice(["1", "37.5", "0", "-5", "0.001", "NaN", "inf", "1e-30"])
        job = {"id": "f%d" % i, "comps": {"text": txt}, "strip": rng.random() < 0.5,
               "factors": ({"text": ftxt} if ftxt is not None else {"loc": rng.choice(core.LOCS + ["MARTE"])}),
               "evals": [[k, area, rng.random() < 0.4]], "want": ["render", "acs", "comps_display", "factors_display", "comps_roundtrip"]}
        jobs.append(job)
    res = core.run_jobs(jobs)
    items = []
    for job, r, (txt, ftxt, tag) in zip(jobs, res, files):
        R.evaluations += 1
        stats["file_" + tag] += 1
        if r.get("runner_missing"):
            R.violations.append(("the library aborts or hangs the process", {"what": "no answer from the in-process run (abort, stack overflow or hang)",
                                                                           "components": txt, "factors": ftxt, "job": job}))
            continue
        pans = find_panics(r)
        if pans:
            if len(R.violations) < 5:
                R.violations.append(("the library panics", {"what": "panic in %s: %s" % pans[0], "components": txt, "factors": ftxt, "job": job}))
            continue
        seen.add(hashlib.sha1((txt + "\x00" + (ftxt or "")).encode("utf-8", "surrogatepass")).hexdigest())
        c = r.get("comps", {})
        stats["comps_" + pf.impl_class(c)] += 1
        scale = Fraction(1)
        if "ok" in c and pf.components_finite(c["ok"]):
            scale = max([abs(Fraction(v)) for e in c["ok"]["data"] for v in e["values"]] + [Fraction(1)])
        tol = core.gq(scale * Fraction(2, 100000) + Fraction(1, 1000000))
        items.append((job["id"] + ".c", "", "verdict (components_cmp (qs_close %s)) (parse_components %s) %s" % (tol, pf.u8(txt), pf.g_pres_components(c))))
    # factor files: the plain reader
    fjobs = [{"id": "w%d" % i, "factors": {"text": ftxt, "raw": True}} for i, (txt, ftxt, tag) in enumerate(files) if ftxt is not None]
    fres = core.run_jobs(fjobs)
    for job, r in zip(fjobs, fres):
        R.evaluations += 1
        pans = find_panics(r)
        if pans or r.get("runner_missing"):
            R.violations.append(("the factors reader panics", {"what": "panic reading a factors file", "factors": job["factors"]["text"]}))
            continue
        stats["factors_" + pf.impl_class(r.get("factors", {}))] += 1
        items.append((job["id"] + ".w", "", "verdict factors_eqb (parse_factors %s) %s" % (pf.u8(job["factors"]["text"]), pf.g_pres_factors(r.get("factors", {})))))
    out, errs = core.run_coq_cases(prop, items, header=pf.HEADER)
    R.harness_errors.extend(errs)
    texts = {j["id"] + ".c": j["comps"]["text"] for j in jobs}
    texts.update({j["id"] + ".w": j["factors"]["text"] for j in fjobs})
    impl = {j["id"] + ".c": r.get("comps") for j, r in zip(jobs, res)}
    impl.update({j["id"] + ".w": r.get("factors") for j, r in zip(fjobs, fres)})
    for cid, t in out.items():
        v = pf.parse_verdict(t)
        if v is None:
            R.harness_errors.append("unparsable verdict for %s: %s" % (cid, t[:120]))
        elif v[0]:
            R.cases_validated += 1
        elif v[1] == "non-finite value" and isinstance(impl[cid], dict) and "panic" not in impl[cid]:
            # the text holds a number that f32 reads as inf / NaN (e.g. 1e39): outside the rational model, which stops there, while the
            # code goes on and may accept the file or refuse it for another reason; panic-freedom was checked above, nothing to compare
            stats["outside_the_model_non_finite_number"] += 1
        else:
            R.broken.append(("correspondence Model.Parse.%s vs implementation" % ("parse_components" if cid.endswith(".c") else "parse_factors"),
                             {"text": texts[cid], "implementation": json.dumps(impl[cid], ensure_ascii=False)[:400], "model_outcome": v[1]}))

    # ---------------------------------------------------------------- the program
    d = cliflow.workdir("c16")
    try:
        # a valid building whose metadata carry odd values for the parameters the program reads from them
        META_ODD = {
            "CTE_RED1": ["{}", "{ren}", "{ren: 1, nren}", "{ren: 1, nren: 2, co2: x}", "{ren: 1; nren: 2}", "{:}", "{ : , : }", "{ren: 1, nren: 2, co2: 3}",
                         "(1, 2", "(1, 2, 3)", "1, 2", "1, 2, 3, 4", "", ",,", "NaN, inf, -1", "(", "}", "{", "1e39, 0, 0", "\u00e9, 1, 1"],
            "CTE_KEXP": ["", "x", "NaN", "inf", "-1", "2", "1e39", "0,5", "0.5 0.5", "{}"],
            "CTE_AREAREF": ["", "x", "NaN", "inf", "-1", "0", "1e-30", "1e39", "10 m2", "{}"],
            "CTE_LOCALIZACION": ["", "x", "peninsula", "PENINSULA, CANARIAS", "\u00e9", "{}"],
        }
        META_ODD["CTE_RED2"] = META_ODD["CTE_RED1"]
        bi = 0
        for mk in sorted(META_ODD):
            for mv in META_ODD[mk]:
                bi += 1
                btxt = "#META %s: %s\n1, CONSUMO, CAL, RED1, 10\n1, CONSUMO, REF, RED2, 10\n2, CONSUMO, ILU, ELECTRICIDAD, 5\n" % (mk, mv)
                cp = os.path.join(d, "m%d.csv" % bi)
                open(cp, "w", encoding="utf-8").write(btxt)
                args = ["-c", cp] + ([] if mk == "CTE_LOCALIZACION" else ["-l", "PENINSULA"]) + (["--oc", os.path.join(d, "moc%d.csv" % bi)] if bi % 2 else [])
                rr = cliflow.run_cli(args, d, timeout=30)
                R.evaluations += 1
                stats["cli_odd_metadata"] += 1
                stats["cli_exit_%s" % rr["exit"]] += 1
                what = None
                if rr["hang"]:
                    what = "the program does not terminate by itself"
                elif rr["exit"] not in OK_EXITS:
                    what = "the program ends with status %s (panic, abort or signal)" % rr["exit"]
                elif "panicked at" in rr["stderr"]:
                    what = "the program panics"
                elif rr["exit"] != 0 and not rr["stderr"].strip():
                    what = "the program fails with status %s without a message on stderr" % rr["exit"]
                if what:
                    if len(R.violations) < 6:
                        R.violations.append((what.split(" (")[0][:70], {"what": what, "args": [a.replace(d, "<dir>") for a in args], "components": btxt,
                                                                        "factors": None, "stderr": rr["stderr"][-600:]}))
                else:
                    R.cases_validated += 1
        ncli = 60 if quick else 1200
        for i, (txt, ftxt, tag) in enumerate(files[:ncli]):
            cp = os.path.join(d, "c%d.csv" % i)
            open(cp, "w", encoding="utf-8", errors="surrogatepass").write(txt)
            args = ["-c", cp]
            if ftxt is not None:
                fp = os.path.join(d, "f%d.csv" % i)
                open(fp, "w", encoding="utf-8", errors="surrogatepass").write(ftxt)
                args += ["-f", fp]
            elif rng.random() < 0.85:
                args += ["-l", rng.choice(core.LOCS)]
            if rng.random() < 0.5:
                v = rng.choice(["0", "0.5", "1"]) if rng.random() < 0.7 else rng.choice(["-1", "2", "abc", "", "NaN", "inf", "1e39", "0,5", " 1"])
                args += ["--kexp=%s" % v]
            if rng.random() < 0.5:
                v = rng.choice(["1", "37.5", "1000"]) if rng.random() < 0.7 else rng.choice(["0", "-5", "0.001", "abc", "", "NaN", "inf", "1e-30", "1e39"])
                args += ["--arearef=%s" % v]
            if rng.random() < 0.2 and ftxt is None:
                args += ["--red1"] + [rng.choice(["0", "1.3", "x", "NaN", "-1", "inf"]) for _ in range(3)]
            if rng.random() < 0.3:
                args += ["--load_matching"]
            r = rng.random()
            if r < 0.5:
                args += ["--json", os.path.join(d, "o%d.json" % i), "--xml", os.path.join(d, "o%d.xml" % i), "--txt", os.path.join(d, "o%d.txt" % i),
                         "--oc", os.path.join(d, "oc%d.csv" % i), "--of", os.path.join(d, "of%d.csv" % i)]
            elif r < 0.55:
                args += ["--json", os.path.join(d, "no_such_dir", "o.json")]
            elif r < 0.6:
                args = ["-c", os.path.join(d, "missing.csv")] + args[2:]
            if i < 42 or rng.random() < 0.1:
                # an argument that is not valid UTF-8 (the byte 0xFF, written here with the file-system escape), or other odd text,
                # as the value of an option or as a path: every place x every odd text once, then at random
                ODD = ["\udcff", "1\udcfe", "0.5\udcc3", "\u00e9", "\u0661", "\u00a01"]
                WHERE = ["kexp", "arearef", "red", "loc", "in", "out", "extra"]
                odd, where = (ODD[i % 6], WHERE[i // 6]) if i < 42 else (rng.choice(ODD), rng.choice(WHERE))
                stats["cli_odd_argument_%s" % where] += 1
                if where == "kexp":
                    args += ["-k", odd]
                elif where == "arearef":
                    args += ["-a", odd]
                elif where == "red":
                    args += [rng.choice(["--red1", "--red2"]), "1", odd, "0"]
                elif where == "loc":
                    args += ["-l", odd]
                elif where == "in":
                    cp2 = os.path.join(d, "c%d%s.csv" % (i, odd))
                    try:
                        shutil.copy(cp, cp2)
                        args[1] = cp2
                    except OSError:
                        pass
                elif where == "out":
                    args += [rng.choice(["--json", "--xml", "--txt", "--oc", "--of"]), os.path.join(d, "o%d%s.out" % (i, odd))]
                else:
                    args += [odd]
            rr = cliflow.run_cli(args, d, timeout=30)
            R.evaluations += 1
            what = None
            if rr["hang"]:
                what = "the program does not terminate by itself"
            elif rr["exit"] not in OK_EXITS:
                what = "the program ends with status %s (panic, abort or signal)" % rr["exit"]
            elif "panicked at" in rr["stderr"]:
                what = "the program panics"
            elif rr["exit"] != 0 and not rr["stderr"].strip():
                what = "the program fails with status %s without a message on stderr" % rr["exit"]
            stats["cli_exit_%s" % rr["exit"]] += 1
            if what:
                if len(R.violations) < 6:
                    R.violations.append((what.split(" (")[0][:70], {"what": what, "args": [a.replace(d, "<dir>").encode("utf-8", "backslashreplace").decode() for a in args], "components": txt,
                                                                    "factors": ftxt, "stderr": rr["stderr"][-600:]}))
            else:
                R.cases_validated += 1
    finally:
        cliflow.cleanup(d)
    R.distinct_nontrivial = len(seen)
    R.stats["stages"] = dict(stats)
    R.samples.append({"line": flat[0][0] if flat else None})
    return R.finish(meta)
