"""C02 — Results equal the EN ISO 52000-1 balance equations evaluated independently"""
from .. import tablecheck, epcheck, oracles

THEOREMS = ["C02_flows", "C02_structure", "C02_weighted", "C02_service_share", "C02_cogeneration_factor",
            "C02_building", "C02_golden"]


def select(path):
    return True


def oracle(case, i, ep):
    # the specification is the Coq model (theorems C02_*): the comparison model vs implementation *is* the oracle;
    # the conservation identities are evaluated as a cheap extra on the implementation-only stream
    return oracles.oracle_c01(ep)


def nontrivial(ep):
    """the building exports energy or uses cogeneration or has at least three carriers"""
    return ep["balance"]["exp"]["an"] > 0 or ep["balance"]["used"]["cgnus"] > 0 or len(ep["balance_cr"]) >= 3


def run(tier, seed):
    return epcheck.run("C02", tier, seed, THEOREMS, select, oracle, nontrivial,
                       n_model=96 if tier == "quick" else 1200, n_oracle=500 if tier == "quick" else 5000,
                       disagreement_is_violation=True, extra_stage=tablecheck.stage,
                       level_note="the model is proved equal to the flat specification Spec/Iso52000.v and reproduces "
                                  "ISO/TR 52000-2 J1-J9 (Golden.v); every numeric field of EnergyPerformance is compared "
                                  "with the model; a disagreement is reported as a violation with the (shrunk) input")
