"""C05 — Parsing keeps declared data and completes ambient/solar production exactly"""
from .. import normcheck, normflow

THEOREMS = ["C05_keeps", "C05_keeps_meta_needs", "C05_appends", "C05_completion_value", "C05_no_pooling",
            "C05_no_use_no_completion", "C05_sort_perm", "C05_sort_stable", "C05_completion_twice_changes_nothing",
            "C05_normalize_idempotent", "C05_read_components_are_normalized",
            "C05_normalized_production", "C05_completed_value", "C05_completed_value_without_production"]


def run(tier, seed):
    return normcheck.run("C05", tier, seed, THEOREMS, normflow.oracle_c05,
                         "the set uses ambient heat or solar thermal energy",
                         "theorems over the model of Components::normalize for every component list and every iteration "
                         "order of the system ids, including idempotence (C05_normalize_idempotent, exact in the rational model; the "
                         "implementation's f32 recomputation is bounded by the differential run: normalize applied twice); the "
                         "line-level 'never drops a line' part is the file-level theorem of C18 plus the parse of generated files")
