"""C17 — Every output format is well formed and reports the computed result"""
import hashlib
import json
import os
import re
import xml.parsers.expat
from collections import Counter
from fractions import Fraction

from .. import core, check, cliflow, epcheck, textflow as tf

THEOREMS = ["C17_xml_well_formed", "C17_escape_any_text", "C17_escape_keeps_clean_text", "C17_escape_is_reversible", "C17_figures_at_precision",
            "C17_json_rounding", "C17_tables_order_independent"]

EPS = Fraction(1, 10 ** 6)


def half_unit(d, v):
    """tolerance for a figure printed with d decimals (half a unit, plus f32 noise of sums)"""
    return Fraction(1, 2 * 10 ** d) + abs(v) * EPS + Fraction(1, 10 ** 9)


def num(s):
    try:
        return Fraction(s)
    except (ValueError, ZeroDivisionError):
        return None


def xml_well_formed(text):
    p = xml.parsers.expat.ParserCreate("utf-8")
    try:
        p.Parse(text.encode("utf-8", "surrogatepass"), True)
        return None
    except xml.parsers.expat.ExpatError as e:
        return str(e)


def xml_tree(text):
    """very small DOM: list of (path, text) for leaf elements"""
    out, stack, buf = [], [], []
    p = xml.parsers.expat.ParserCreate("utf-8")

    def start(n, a):
        stack.append(n)
        buf.clear()

    def end(n):
        out.append(("/".join(stack), "".join(buf)))
        stack.pop()
        buf.clear()
    p.StartElementHandler = start
    p.EndElementHandler = end
    p.CharacterDataHandler = lambda d: buf.append(d)
    p.Parse(text.encode("utf-8", "surrogatepass"), True)
    return out


def plain_sections(text):
    """-> (scalars {label: text}, lists {heading-ordinal: [(key, rest)]})"""
    scal = {}
    for lab, rx in (("area", r"^Area_ref = (\S+) \[m2\]$"), ("kexp", r"^k_exp = (\S+)$"),
                    ("cep", r"^C_ep \[kWh/m2.an\]: ren = (\S+), nren = (\S+), tot = (\S+)$"),
                    ("co2", r"^E_CO2 \[kg_CO2e/m2.an\]: (\S+)$"), ("rer", r"^RER = (\S+)$"), ("rer_nrb", r"^RER_nrb = (\S+)$"),
                    ("used", r"^Energía consumida: (\S+)$"), ("epus", r"^\+ Consumida en usos EPB: (\S+)$"),
                    ("nepus", r"^\+ Consumida en usos no EPB: (\S+)$"), ("cgnus", r"^\+ Consumida en cogeneración: (\S+)$"),
                    ("prod", r"^Generada: (\S+)$"), ("del", r"^Suministrada (\S+):$"), ("del_grid", r"^- de red: (\S+)$"),
                    ("del_onst", r"^- in situ: (\S+)$"), ("exp", r"^Exportada: (\S+)$"), ("exp_grid", r"^- a la red: (\S+)$"),
                    ("exp_nepus", r"^- a usos no EPB: (\S+)$"),
                    ("we_a", r"^Recursos utilizados \(paso A\): ren (\S+), nren (\S+), tot: (\S+), co2: (\S+)$"),
                    ("we_b", r"^Incluyendo el efecto de la energía exportada \(paso B\): ren (\S+), nren (\S+), tot: (\S+), co2: (\S+)$"),
                    ("n_ACS", r"^- ACS: (\S+)$"), ("n_CAL", r"^- CAL: (\S+)$"), ("n_REF", r"^- REF: (\S+)$")):
        m = re.search(rx, text, flags=re.M)
        scal[lab] = m.groups() if m else None
    lists = {}
    heads = ["* por servicio:", "* por vector:", "* por vector:", "* por origen:",
             "* generada y usada en servicios EPB, por origen:", "* por servicio:", "* por servicio:"]
    names = ["used_by_srv", "used_by_cr", "prod_by_cr", "prod_by_src", "prod_epus_by_src", "a_by_srv", "b_by_srv"]
    lines = text.split("\n")
    pos = 0
    for h, nm in zip(heads, names):
        try:
            i = lines.index(h, pos)
        except ValueError:
            lists[nm] = None
            continue
        j = i + 1
        ent = []
        while j < len(lines) and lines[j].startswith("- "):
            k, _, rest = lines[j][2:].partition(": ")
            ent.append((k, rest))
            j += 1
        lists[nm] = ent
        pos = j
    return scal, lists


def check_plain(text, ep):
    """the figures of the plain report against the result; -> None or a description"""
    b = ep["balance_m2"]
    scal, lists = plain_sections(text)
    F = lambda x: Fraction(x) if not isinstance(x, str) else None

    def cmp(label, txt, val, d):
        v = num(txt)
        if val is None:
            return None
        if v is None:
            return "%s: '%s' is not a number" % (label, txt)
        if abs(v - val) > half_unit(d, val):
            return "%s: report says %s, result is %s" % (label, txt, core.fstr(val))
        return None
    web, wea = [F(x) for x in b["we"]["b"]], [F(x) for x in b["we"]["a"]]
    if None in web or None in wea:
        return None
    checks = [("Area_ref", scal["area"], [F(ep["arearef"])], 2), ("k_exp", scal["kexp"], [F(ep["k_exp"])], 2),
              ("C_ep", scal["cep"], [web[0], web[1], web[0] + web[1]], 1), ("E_CO2", scal["co2"], [web[2]], 2),
              ("RER", scal["rer"], [F(ep["rer"])], 2), ("RER_nrb", scal["rer_nrb"], [F(ep["rer_nrb"])], 2),
              ("used", scal["used"], [F(b["used"]["epus"]) + F(b["used"]["nepus"]) + F(b["used"]["cgnus"])], 2),
              ("epus", scal["epus"], [F(b["used"]["epus"])], 2), ("nepus", scal["nepus"], [F(b["used"]["nepus"])], 2),
              ("cgnus", scal["cgnus"], [F(b["used"]["cgnus"])], 2), ("prod", scal["prod"], [F(b["prod"]["an"])], 2),
              ("del", scal["del"], [F(b["del"]["an"])], 2), ("del_grid", scal["del_grid"], [F(b["del"]["grid"])], 2),
              ("del_onst", scal["del_onst"], [F(b["del"]["onst"])], 2), ("exp", scal["exp"], [F(b["exp"]["an"])], 2),
              ("exp_grid", scal["exp_grid"], [F(b["exp"]["grid"])], 2), ("exp_nepus", scal["exp_nepus"], [F(b["exp"]["nepus"])], 2),
              ("we_a", scal["we_a"], [wea[0], wea[1], wea[0] + wea[1], wea[2]], 2),
              ("we_b", scal["we_b"], [web[0], web[1], web[0] + web[1], web[2]], 2)]
    for label, got, vals, d in checks:
        if got is None:
            return "%s: line missing from the plain report" % label
        for t, v in zip(got, vals):
            r = cmp(label, t, v, d)
            if r:
                return r
    for srv in ("ACS", "CAL", "REF"):
        got = scal["n_" + srv]
        val = b["needs"].get(srv)
        if got is None:
            return "demand line %s missing" % srv
        if val is None:
            if got[0] != "-":
                return "demand %s: absent in the result, report says %s" % (srv, got[0])
        else:
            r = cmp("demand " + srv, got[0], F(val), 1)
            if r:
                return r
    for nm, mp, d in (("used_by_srv", b["used"]["epus_by_srv"], 2), ("used_by_cr", b["used"]["epus_by_cr"], 2),
                      ("prod_by_cr", b["prod"]["by_cr"], 2), ("prod_by_src", b["prod"]["by_src"], 2),
                      ("prod_epus_by_src", b["prod"]["epus_by_src"], 2)):
        ent = lists.get(nm)
        if ent is None:
            return "table %s missing" % nm
        if [k for k, _ in ent] != sorted(mp.keys()):
            # entries are sorted as whole lines; keys are distinct and none is a strict prefix followed by ':' issue
            if sorted(k for k, _ in ent) != sorted(mp.keys()):
                return "table %s lists %s, result has %s" % (nm, [k for k, _ in ent], sorted(mp.keys()))
            if [("- %s: %s" % e) for e in ent] != sorted(("- %s: %s" % e) for e in ent):
                return "table %s is not sorted" % nm
        for k, rest in ent:
            r = cmp("%s[%s]" % (nm, k), rest, F(mp[k]), d)
            if r:
                return r
    for nm, mp in (("a_by_srv", b["we"]["a_by_srv"]), ("b_by_srv", b["we"]["b_by_srv"])):
        ent = lists.get(nm)
        if ent is None:
            return "table %s missing" % nm
        if sorted(k for k, _ in ent) != sorted(mp.keys()):
            return "table %s lists %s, result has %s" % (nm, [k for k, _ in ent], sorted(mp.keys()))
        if [("- %s: %s" % e) for e in ent] != sorted(("- %s: %s" % e) for e in ent):
            return "table %s is not sorted" % nm
        for k, rest in ent:
            m = re.match(r"^ren (\S+), nren (\S+), tot: (\S+), co2: (\S+)$", rest)
            if not m:
                return "table %s[%s]: unexpected text '%s'" % (nm, k, rest)
            v = [F(x) for x in mp[k]]
            for t, val in zip(m.groups(), [v[0], v[1], v[0] + v[1], v[2]]):
                r = cmp("%s[%s]" % (nm, k), t, val, 2)
                if r:
                    return r
    return None


def check_xml(text, ep):
    err = xml_well_formed(text)
    if err:
        return "XML is not well-formed: %s" % err
    leaves = dict()
    for path, txt in xml_tree(text):
        leaves.setdefault(path, []).append(txt)
    F = lambda x: Fraction(x) if not isinstance(x, str) else None
    web = [F(x) for x in ep["balance_m2"]["we"]["b"]]
    if None in web:
        return None
    for path, val, d in (("BalanceEPB/kexp", F(ep["k_exp"]), 2), ("BalanceEPB/AreaRef", F(ep["arearef"]), 2),
                         ("BalanceEPB/Epm2/tot", web[0] + web[1], 1), ("BalanceEPB/Epm2/nren", web[1], 1)):
        got = leaves.get(path)
        if not got or len(got) != 1:
            return "XML element %s missing or repeated" % path
        v = num(got[0])
        if v is None or abs(v - val) > half_unit(d, val):
            return "XML %s says %s, result is %s" % (path, got[0], core.fstr(val))
    # components: as many data elements as components, values at 2 decimals
    ncomp = sum(len(leaves.get("BalanceEPB/Componentes/%s/Id" % k, [])) for k in ("Consumo", "Produccion", "EAux", "Salida"))
    if ncomp != len(ep["components"]["data"]):
        return "XML lists %d components, result has %d" % (ncomp, len(ep["components"]["data"]))
    nfac = len(leaves.get("BalanceEPB/FactoresDePaso/Factor/ren", []))
    if nfac != len(ep["wfactors"]["wdata"]):
        return "XML lists %d factors, result has %d" % (nfac, len(ep["wfactors"]["wdata"]))
    return None


def rnc_lists(v):
    if isinstance(v, dict):
        if set(v.keys()) == {"ren", "nren", "co2"}:
            return [v["ren"], v["nren"], v["co2"]]
        return {k: rnc_lists(x) for k, x in v.items()}
    if isinstance(v, list):
        return [rnc_lists(x) for x in v]
    return v


RNC_PATH = re.compile(r"(^|/)(we)/")


def check_json(text, ep, back):
    try:
        js = json.loads(text)
    except ValueError as e:
        return "JSON does not parse: %s" % e, None
    for part in ("k_exp", "arearef", "balance_cr", "balance", "balance_m2", "rer", "rer_nrb", "rer_onst"):
        if part not in js:
            return "JSON lacks '%s'" % part, js
        a = core.flatten(ep[part], part)
        b = core.flatten(rnc_lists(js[part]), part)
        for path, va in a.items():
            if path.endswith("/carrier"):
                continue
            vb = b.get(path)
            if isinstance(va, Fraction):
                if not isinstance(vb, Fraction):
                    return "JSON %s missing (result %s)" % (path, core.fstr(va)), js
                tol = (Fraction(1, 2000) + abs(va) * EPS * 2) if RNC_PATH.search(path) else abs(va) * EPS + Fraction(1, 10 ** 12)
                if abs(va - vb) > tol:
                    return "JSON %s says %s, result is %s" % (path, core.fstr(vb), core.fstr(va)), js
        extra = [p for p in b if p not in a and not p.endswith("/carrier")]
        if extra:
            return "JSON has entries the result has not: %s" % extra[:3], js
    if back is None or "ok" not in back:
        return "JSON cannot be read back: %s" % (str(back)[:200]), js
    for part in ("k_exp", "arearef", "balance_cr", "balance", "balance_m2", "rer", "rer_nrb", "rer_onst"):
        a = core.flatten(ep[part], part)
        b = core.flatten(back["ok"][part], part)
        if set(a) != set(b):
            return "read-back result differs in structure: %s" % sorted(set(a) ^ set(b))[:3], js
        for path, va in a.items():
            vb = b[path]
            if isinstance(va, Fraction) and isinstance(vb, Fraction):
                tol = (Fraction(1, 2000) + abs(va) * EPS * 2) if RNC_PATH.search(path) else Fraction(0)
                if abs(va - vb) > tol:
                    return "read-back %s is %s, result is %s" % (path, core.fstr(vb), core.fstr(va)), js
            elif va != vb:
                return "read-back %s is %s, result is %s" % (path, vb, va), js
    if len(back["ok"]["components"]["data"]) != len(ep["components"]["data"]) or \
            len(back["ok"]["wfactors"]["wdata"]) != len(ep["wfactors"]["wdata"]):
        return "read-back result has different components / factors", js
    return None, js


def run(tier, seed):
    prop = "C17"
    R = check.Result(prop, tier, seed)
    rng = check.make_rng(prop, seed)
    n_render = 40 if tier == "quick" else 500
    n_fmt = 150 if tier == "quick" else 3000
    meta = {"coverage": {"checker_cmd": "make -C coq theories/Props/C17.vo && coqc <Print Assumptions> (+ coqchk in thorough tier)",
                         "trusted_base": epcheck.TRUSTED_BASE + [
                             "Spec/Xml.v is the definition of well-formedness (elements without attributes, character data, "
                             "five entities, comments); validity of multi-byte UTF-8 is Rust's String invariant",
                             "serde_json's number and string writer is not modelled: JSON validity / read-back are decided on "
                             "the implementation's output (Python json, serde read-back)",
                             "expat (Python) as independent XML oracle for the failing-input search"],
                         "rule": "stage A: Rust's {:.1|2|3} of random, tie, huge, tiny, negative f32 values against fmt_fixed; stage B: f32 "
                                 "add/mul/div and the JSON rounding against fadd/fmul/fdiv/round3; stage C: generated buildings "
                                 "(1/2/3/12 steps, all component kinds, demands present/absent) whose comments and metadata carry "
                                 "<, >, &, quotes, backslashes, comment/CDATA delimiters, non-ASCII, control characters, U+FFFE/U+FFFF; "
                                 "to_plain and to_xml compared byte for byte with the model evaluated on the implementation's figures; "
                                 "non-trivial = distinct (components, parameters) with a result"},
            "assumptions": ["finite figures; the sign of a negative zero is not modelled ('-0.00' is read as '0.00')"]}
    try:
        core.build_runner()
    except core.BuildError as e:
        R.harness_errors.append(str(e)[-1500:])
        R.broken.append(("build of /repo's working tree failed", str(e)[-800:]))
        return R.finish(meta)
    ok, rep = check.proof_obligations(prop, THEOREMS)
    R.proof = rep
    if not ok:
        R.broken.append(("proof obligations", {k: rep.get(k) for k in ("failed", "failing_location", "forbidden_vernacular",
                                                                         "make_log_tail", "assumption_check_error", "assumptions")}))
    if tier == "thorough" and ok:
        cok, axioms, tail = check.coqchk(prop)
        meta["coverage"]["coqchk"] = {"ok": cok, "axioms": axioms}
        if not cok or axioms:
            R.broken.append(("coqchk", {"ok": cok, "axioms": axioms, "tail": tail}))
    stats = Counter()

    # ---------------------------------------------------------------- stage A / B: numbers
    toks = ["0.125", "0.375", "2.5", "0.05", "0.15", "0.25", "1e10", "123456.789", "-0.004", "-0.005", "-1.5", "0.0005",
            "0.0015", "3.4e38", "1e-40", "0.994999", "0.995", "99.995", "0", "1", "0.045", "0.055", "1e-7", "16777216", "-33.333"]
    for _ in range(n_fmt // 3):
        toks.append("%.*f" % (rng.randint(0, 6), rng.uniform(-2000, 2000) * rng.choice([1, 1, 1, 1e-3, 1e4])))
    orc = core.run_jobs([{"id": "o", "parse_f32": toks}])[0]["parse_f32"]
    vals = [v for t, v in orc if v is not None and not isinstance(v, str)]
    fm = core.run_jobs([{"id": "f", "fmt_f32": [[p, v] for v in vals for p in (1, 2, 3)]}])[0]["fmt_f32"]
    items = []
    for i, (p, v, s) in enumerate(fm):
        s2 = tf.canon_zero(s) if Fraction(v) == 0 else s
        items.append(("a%d" % i, "", "first_diff (fmt_fixed %d %s) %s" % (p, core.gq(Fraction(v)), tf.g_bytes(s2))))
    ar = []
    for _ in range(n_fmt // 3):
        a, b = rng.choice(vals), rng.choice(vals)
        for op in ("add", "mul", "div", "round3"):
            if op == "div" and b == 0:
                continue
            ar.append([op, a, b])
    res = core.run_jobs([{"id": "r", "f32_arith": ar}])[0]["f32_arith"]
    fn = {"add": "fadd", "mul": "fmul", "div": "fdiv"}
    for i, (op, a, b, v) in enumerate(res):
        if isinstance(v, str) or isinstance(a, str) or isinstance(b, str):
            continue
        e = ("round3 %s" % core.gq(Fraction(a))) if op == "round3" else "%s %s %s" % (fn[op], core.gq(Fraction(a)), core.gq(Fraction(b)))
        items.append(("b%d" % i, "", "qeqb (%s) %s" % (e, core.gq(Fraction(v)))))
    out, errs = core.run_coq_cases(prop, items, header=tf.TEXT_HEADER)
    R.harness_errors.extend(errs)
    for i, (p, v, s) in enumerate(fm):
        t = out.get("a%d" % i)
        if t is None:
            continue
        R.evaluations += 1
        d = tf.parse_diff(t)
        stats["fmt"] += 1
        if d is None:
            R.cases_validated += 1
        else:
            R.broken.append(("correspondence fmt_fixed vs Rust's {:.%d}" % p, {"value": v, "rust": s, "first_difference": str(d)}))
    for i, row in enumerate(res):
        t = out.get("b%d" % i)
        if t is None:
            continue
        R.evaluations += 1
        stats["f32_" + row[0]] += 1
        if re.search(r"=\s*true", t):
            R.cases_validated += 1
        else:
            R.broken.append(("correspondence f32 arithmetic (%s)" % row[0], {"operands": row[1:3], "rust": row[3]}))

    # ---------------------------------------------------------------- stage C: reports
    jobs, texts = [], {}
    for i in range(n_render):
        txt, b = tf.render_case_text(rng, plain_comments=(i % 5 == 4))
        job = {"id": "c%d" % i, "comps": {"text": txt, "normalize": True}, "factors": {"loc": rng.choice(core.LOCS)}, "strip": True,
               "evals": [[rng.choice(["0", "0.5", "1"]), rng.choice(["1", "37.5", "100.456", "0.0625"]), rng.random() < 0.3]],
               "want": ["render"]}
        jobs.append(job)
        texts[job["id"]] = txt
    res1 = {r["id"]: r for r in core.run_jobs(jobs)}
    res2 = {r["id"]: r for r in core.run_jobs(jobs)}       # a second process: other hash seeds
    items, keep = [], {}
    for job in jobs:
        cid = job["id"]
        r = res1.get(cid, {})
        ev = (r.get("evals") or [{}])[0]
        if "ep_misc" not in ev or "plain" not in ev or "xml" not in ev:
            stats["no_result"] += 1
            continue
        if not all(isinstance(ev[k], str) for k in ("plain", "xml", "json")):
            R.violations.append(("a formatter panics", {"what": "a formatter panics", "components": texts[cid], "job": job,
                                                        "outputs": {k: str(ev.get(k))[:300] for k in ("plain", "xml", "json")}}))
            continue
        ep = ev["ep_misc"]["ok"]
        flat = {k: v for k, v in core.flatten({"balance_m2": ep["balance_m2"], "k_exp": ep["k_exp"], "arearef": ep["arearef"],
                                                "rer": ep["rer"], "rer_nrb": ep["rer_nrb"]}).items() if isinstance(v, Fraction)}
        if not core.finite_components(ep["components"]):
            continue
        misc = ep.get("misc") or {}
        fr = misc.get("fraccion_renovable_demanda_acs_nrb")
        gm = "(Some (Some %s))" % core.gq(Fraction(fr)) if fr is not None else "(Some None)"
        web = ep["balance_m2"]["we"]["b"]
        items.append((cid + ".p", "", "same_text (to_plain %s %s) %s" % (tf.g_rows(flat), gm, tf.g_bytes(ev["plain"]))))
        items.append((cid + ".x", "", "same_text (ep_xml %s %s %s %s %s %s) %s" % (
            tf.g_factors_b(ep["wfactors"]), tf.g_components_b(ep["components"]), core.gq(Fraction(ep["k_exp"])),
            core.gq(Fraction(ep["arearef"])), core.gq(Fraction(web[0])), core.gq(Fraction(web[1])), tf.g_bytes(ev["xml"]))))
        keep[cid] = (ev, ep, job)
    out, errs = core.run_coq_cases(prop, items, header=tf.TEXT_HEADER)
    R.harness_errors.extend(errs)
    seen = set()
    json_order_varies = 0
    for cid, (ev, ep, job) in keep.items():
        replay = {"components": texts[cid], "job": job}
        # independent oracles on the implementation's output
        what = check_plain(ev["plain"], ep)
        if what:
            what = "plain report: " + what
        if not what:
            what = check_xml(ev["xml"], ep)
        js = None
        if not what:
            what, js = check_json(ev["json"], ep, ev.get("json_back"))
        if not what:
            ev2 = (res2.get(cid, {}).get("evals") or [{}])[0]
            if ev2.get("plain") != ev["plain"]:
                what = "the plain report varies between runs"
            elif ev2.get("xml") != ev["xml"]:
                what = "the XML document varies between runs"
            else:
                try:
                    js2 = json.loads(ev2.get("json"))
                except (TypeError, ValueError):
                    js2 = None
                if js2 != js:
                    what = "the content of the JSON document varies between runs"
                elif ev2.get("json") != ev["json"]:
                    json_order_varies += 1
        R.evaluations += 1
        if what:
            stats["oracle_failures"] += 1
            if len(R.violations) < 4:
                replay.update({"what": what, "plain_head": ev["plain"][:400], "xml_head": ev["xml"][:400]})
                R.violations.append((re.sub(r"[0-9.\-]+", "#", what)[:80], replay))
            continue
        # model vs implementation, byte for byte
        okc = True
        for suf, key in ((".p", "plain"), (".x", "xml")):
            t = out.get(cid + suf)
            if t is None:
                okc = False
                continue
            d = tf.parse_diff(t)
            if d == "unparsed":
                R.harness_errors.append("unparsable model output for %s%s: %s" % (cid, suf, t[:200]))
                okc = False
            elif d is not None:
                okc = False
                bts = tf.canon_zero(ev[key]).encode("utf-8", "surrogatepass")
                R.broken.append(("correspondence Model.Text.%s vs implementation" % ("to_plain" if key == "plain" else "ep_xml"),
                                 {"first_difference_at_byte": d[0], "model_byte": d[1], "impl_byte": d[2],
                                  "impl_context": bts[max(0, d[0] - 80):d[0] + 40].decode("utf-8", "replace"),
                                  "components": texts[cid], "job": job}))
        if okc:
            R.cases_validated += 1
            seen.add(hashlib.sha1(texts[cid].encode("utf-8", "surrogatepass")).hexdigest())
            stats["reports_matched"] += 1
    if json_order_varies:
        kf = [f for f in check.load_known()["findings"] if f.get("property") == prop and f.get("class") == "json-member-order"]
        if kf:
            R.known_hits.append("%s (%d of %d results in this run)" % (kf[0]["what"], json_order_varies, len(keep)))
        else:
            R.violations.append(("JSON member order varies between runs",
                                 {"what": "the order of the members of the JSON document varies between runs (content equal)",
                                  "components": texts[next(iter(keep))]}))
    stats["json_order_varies"] = json_order_varies

    # ---------------------------------------------------------------- stage D: the files the program writes
    try:
        core.build_cli()
        d = cliflow.workdir("c17")
        try:
            for i, (cid, (ev, ep, job)) in enumerate(list(keep.items())[: (6 if tier == "quick" else 60)]):
                cp = os.path.join(d, "c%d.csv" % i)
                open(cp, "w", encoding="utf-8", errors="surrogatepass").write(texts[cid])
                k, area, lm = job["evals"][0]
                args = ["-c", cp, "-l", job["factors"]["loc"], "-k", k, "-a", area, "--json", os.path.join(d, "o%d.json" % i),
                        "--xml", os.path.join(d, "o%d.xml" % i), "--txt", os.path.join(d, "o%d.txt" % i)] + (["--load_matching"] if lm else [])
                r = cliflow.run_cli(args, d)
                R.evaluations += 1
                stats["cli_runs"] += 1
                what = None
                if r["hang"] or r["exit"] != 0:
                    what = "the program fails on a valid input (exit %s)" % r["exit"]
                else:
                    rd = lambda n: open(os.path.join(d, n), encoding="utf-8", errors="surrogatepass").read()
                    try:
                        xml_t, txt_t, js_t = rd("o%d.xml" % i), rd("o%d.txt" % i), rd("o%d.json" % i)
                    except OSError as e:
                        xml_t = txt_t = js_t = None
                        what = "an output file was not written: %s" % e
                    if what is None:
                        # the program adds metadata (area, k_exp, location) to the components: the XML file is judged
                        # by the oracle, not by equality with the library's document
                        what = check_xml(xml_t, ep)
                        if what:
                            pass
                        elif txt_t != ev["plain"]:
                            what = check_plain(txt_t, ep) or "the text file differs from to_plain() of the result"
                        elif ev["plain"].strip() not in r["stdout"]:
                            what = "the report printed on stdout is not the plain report of the result"
                        else:
                            try:
                                ja, jb = json.loads(js_t), json.loads(ev["json"])
                                if any(ja.get(k) != jb.get(k) for k in ("balance", "balance_m2", "balance_cr", "rer", "rer_nrb", "k_exp", "arearef")):
                                    what = "the JSON file differs from the serialised result"
                            except ValueError as e:
                                what = "the JSON file does not parse: %s" % e
                if what:
                    R.violations.append((what[:80], {"what": what, "components": texts[cid], "args": args[2:8], "stderr": r["stderr"][-300:]}))
                else:
                    R.cases_validated += 1
        finally:
            cliflow.cleanup(d)
    except core.BuildError as e:
        R.harness_errors.append(str(e)[-800:])
    R.distinct_nontrivial = len(seen)
    R.stats["stages"] = dict(stats)
    if keep:
        cid = next(iter(keep))
        R.samples.append({"components": texts[cid][:600]})
    return R.finish(meta)
