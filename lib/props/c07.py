"""C07 — Preparing weighting factors: complete, respectful of user values, idempotent"""
import hashlib
import json
from collections import Counter

from .. import core, check, facflow, epflow, epcheck, gen

THEOREMS = ["C07_respects", "C07_nothing_removed", "C07_forced", "C07_export_defaults", "C07_red_precedence",
            "C07_complete", "C07_idempotent", "C07_idempotent_user", "C07_rejects", "C07_no_electricity_added", "C07_prepared_carriers_have_grid_factors"]


def run(tier, seed):
    prop = "C07"
    R = check.Result(prop, tier, seed)
    rng = check.make_rng(prop, seed)
    n_model = 150 if tier == "quick" else 2000
    n_oracle = 1500 if tier == "quick" else 20000
    n_complete = 400 if tier == "quick" else 6000
    meta = {"coverage": {"checker_cmd": "make -C coq theories/Props/C07.vo && coqc <Print Assumptions> (+ coqchk in thorough tier)",
                         "trusted_base": epcheck.TRUSTED_BASE,
                         "rule": "factor files over random subsets of the 216 keys (full / subset / minimal / duplicated keys / "
                                 "missing grid factors / no electricity), the four locations, user RED1/RED2 given or not; prepared "
                                 "lists compared exactly (order and values) with the model; non-trivial = the set is accepted and "
                                 "at least one factor had to be added; completeness: random buildings over the set's carriers"},
            "assumptions": ["comments of generated factors are not compared"]}
    try:
        core.build_runner()
    except core.BuildError as e:
        R.harness_errors.append(str(e)[-1500:])
        R.broken.append(("build of /repo's working tree failed", str(e)[-800:]))
        return R.finish(meta)
    ok, rep = check.proof_obligations(prop, THEOREMS)
    R.proof = rep
    if not ok:
        R.broken.append(("proof obligations", {k: rep.get(k) for k in ("failed", "failing_location", "forbidden_vernacular",
                                                                         "make_log_tail", "assumption_check_error", "assumptions")}))
    if tier == "thorough" and ok:
        cok, axioms, tail = check.coqchk(prop)
        meta["coverage"]["coqchk"] = {"ok": cok, "axioms": axioms}
        if not cok or axioms:
            R.broken.append(("coqchk", {"ok": cok, "axioms": axioms, "tail": tail}))
    cases = facflow.gen_cases(rng, n_model)
    facflow.run_impl(cases)
    R.harness_errors.extend(facflow.run_model(cases, prop))
    tags = Counter()
    for c in cases:
        R.evaluations += 1
        bad = facflow.compare_case(c)
        if bad:
            R.broken.append(("correspondence model/implementation (factor preparation)", {"case": c.cid, "first": bad[:2], "replay": c.replay()}))
        else:
            R.cases_validated += 1
        for t in c.tags:
            tags[t] += 1
        tags["impl_" + ("ok" if "ok" in c.impl.get("factors", {}) else c.impl.get("factors", {}).get("err", "other"))] += 1
    R.stats["model_vs_impl"] = {"cases": len(cases), "agree": R.cases_validated, "tags": dict(tags)}
    ocases = cases + facflow.gen_cases(rng, n_oracle, prefix="o")
    facflow.run_impl(ocases[len(cases):])
    seen = set()
    for c in ocases:
        R.evaluations += 1
        r = c.impl.get("factors", {})
        if "ok" in r and c.raw is not None and len(r["ok"]["wdata"]) > len(c.raw["wdata"]):
            seen.add(hashlib.sha1(json.dumps(c.job(), sort_keys=True).encode()).hexdigest())
        for what, detail in facflow.oracle_c07(c):
            if len(R.violations) < 3:
                payload = c.replay()
                payload.update({"what": what, "detail": detail})
                R.violations.append((what, payload))
            break
    R.distinct_nontrivial = len(seen)
    # completeness: buildings over the carriers of accepted sets never hit MissingFactor
    ecases = []
    accepted = [c for c in ocases if "ok" in c.impl.get("factors", {})]
    for i in range(n_complete):
        fc = rng.choice(accepted)
        carriers = sorted({f["carrier"] for f in fc.impl["factors"]["ok"]["wdata"]})
        b = gen.gen_building(rng)
        # restrict the building to the carriers of the set
        def ok_line(k, kw):
            if k == "CONSUMO":
                return kw["carrier"] in carriers
            if k == "PRODUCCION":
                return {"EL_INSITU": "ELECTRICIDAD", "EL_COGEN": "ELECTRICIDAD", "TERMOSOLAR": "TERMOSOLAR", "EAMBIENTE": "EAMBIENTE"}[kw["source"]] in carriers
            if k == "AUX":
                return "ELECTRICIDAD" in carriers
            return True
        b.lines = [(k, kw) for k, kw in b.lines if ok_line(k, kw)]
        if not any(k in ("CONSUMO", "PRODUCCION") for k, _ in b.lines):
            continue
        ec = epflow.EpCase("e%d" % i, {"text": b.text()}, fc.spec, fc.user, [gen.gen_params(rng)], strip=False)
        ecases.append(ec)
    epflow.run_impl(ecases)
    miss = 0
    for ec in ecases:
        for ev in ec.impl.get("evals", []):
            R.evaluations += 1
            if ev.get("ep", {}).get("err") == "MissingFactor":
                miss += 1
                if len(R.violations) < 3:
                    payload = ec.replay()
                    payload.update({"what": "missing factor", "detail": ev["ep"].get("msg")})
                    R.violations.append(("a building over the carriers of a prepared set hit a missing-factor error", payload))
    R.stats["completeness"] = {"buildings": len(ecases), "missing_factor_errors": miss}
    R.samples.append({"factors": cases[0].spec, "user": cases[0].user})
    return R.finish(meta)
