"""C15 — The renewable share of DHW demand is a fraction that depends only on DHW supply"""
import hashlib
import json
from collections import Counter
from fractions import Fraction

from .. import core, check, epflow, epcheck, gen, oracles
from .c10 import line_of

THEOREMS = ["C15_no_demand", "C15_k_independent", "C15_area_independent", "C15_zero_demand", "C15_no_dhw_use", "C15_nearby_supply_closed_form", "C15_solar_boiler", "C15_direct_electric_closed_form",
            "C15_without_biomass", "C15_heat_pump", "C15_biomass_nearby", "C15_biomass_mixed", "C15_biomass_mixed_without_output",
            "C15_two_biomasses", "C15_two_biomasses_without_output"]

FR = {  # ren/(ren+nren) of the regulatory supply factors (all locations share them)
    "EAMBIENTE": Fraction(1), "TERMOSOLAR": Fraction(1),
    "BIOMASA": Fraction(1003, 1037), "BIOMASADENSIFICADA": Fraction(1028, 1113),
}


def gen_dhw_building(rng):
    """a building whose DHW supply is a combination of the supported mixes, plus other services"""
    n = rng.choice([1, 2, 3, 12])
    b = gen.Building()
    b.n = n
    v = lambda hi=64 * 200: gen.vec(rng, n, pzero=0.0, hi=hi)
    mix = rng.choice(["electric_pv", "heat_pump", "solar_boiler", "district", "biomass_alone", "biomass_nearby",
                      "biomass_gas_out", "biomass_gas_noout", "two_biomass", "heat_pump_pv_aux", "cogen_biomass",
                      "biomass_small_electric"])
    b.mix = mix
    demand = [Fraction(0)] * n
    add = lambda d, x, f=1: [a + Fraction(c) * f for a, c in zip(d, x)]
    expected = None   # closed form when the mix is canonical and nothing else interferes
    if mix == "electric_pv":
        e = v()
        b.add("CONSUMO", id=1, service="ACS", carrier="ELECTRICIDAD", values=e)
        b.add("PRODUCCION", id=1, source="EL_INSITU", values=[x * rng.choice([0, Fraction(1, 2), 1, 2]) for x in e])
        demand = add(demand, e)
    elif mix in ("heat_pump", "heat_pump_pv_aux"):
        e = v()
        amb = [x * 2 for x in e]
        b.add("CONSUMO", id=1, service="ACS", carrier="ELECTRICIDAD", values=e)
        tag = "CTEEPBD_EXCLUYE_SCOP_ACS" if rng.random() < 0.2 else ""
        b.add("CONSUMO", id=1, service="ACS", carrier="EAMBIENTE", values=amb, comment=tag)
        if rng.random() < 0.4:
            # the ambient heat production declared by hand (all of it or part of it), with or without the tag of the consumption
            b.add("PRODUCCION", id=1, source="EAMBIENTE", values=[x * rng.choice([Fraction(1, 2), 1]) for x in amb],
                  comment=rng.choice([tag, tag, "CTEEPBD_EXCLUYE_SCOP_ACS", ""]))
            b.tags.add("declared_ambient_production")
        demand = add(add(demand, e), amb)
        if mix == "heat_pump_pv_aux":
            b.add("PRODUCCION", id=2, source="EL_INSITU", values=[x * rng.choice([Fraction(1, 2), 1, 2]) for x in e])
            b.add("AUX", id=1, values=[x / 8 for x in e])
    elif mix == "solar_boiler":
        s, g = v(), v()
        b.add("CONSUMO", id=1, service="ACS", carrier="TERMOSOLAR", values=s)
        b.add("CONSUMO", id=2, service="ACS", carrier=rng.choice(["GASNATURAL", "GASOLEO", "GLP"]), values=g)
        demand = add(add(demand, s), g, Fraction(7, 8))
    elif mix == "district":
        d1 = v()
        b.add("CONSUMO", id=1, service="ACS", carrier=rng.choice(["RED1", "RED2"]), values=d1)
        demand = add(demand, d1)
    elif mix == "biomass_alone":
        g = v()
        b.add("CONSUMO", id=1, service="ACS", carrier=rng.choice(["BIOMASA", "BIOMASADENSIFICADA"]), values=g)
        demand = add(demand, g, Fraction(3, 4))
    elif mix == "biomass_nearby":
        g, s = v(), v()
        b.add("CONSUMO", id=1, service="ACS", carrier="BIOMASA", values=g)
        b.add("CONSUMO", id=2, service="ACS", carrier=rng.choice(["TERMOSOLAR", "RED1"]), values=s)
        demand = add(add(demand, g, Fraction(3, 4)), s)
    elif mix in ("biomass_gas_out", "biomass_gas_noout"):
        g, gas = v(), v()
        b.add("CONSUMO", id=1, service="ACS", carrier="BIOMASA", values=g)
        b.add("CONSUMO", id=2, service="ACS", carrier="GASNATURAL", values=gas)
        if mix == "biomass_gas_out":
            b.add("SALIDA", id=1, service="ACS", values=[x * Fraction(3, 4) for x in g])
            if rng.random() < 0.5:
                # the same biomass boiler also heats: its heating output must not count as DHW
                h = v()
                b.add("CONSUMO", id=1, service="CAL", carrier="BIOMASA", values=h)
                b.add("SALIDA", id=1, service="CAL", values=[x * Fraction(3, 4) for x in h])
                b.tags.add("biomass_other_output")
        demand = add(add(demand, g, Fraction(3, 4)), gas, Fraction(7, 8))
    elif mix == "biomass_small_electric":
        # a biomass boiler and a small electric backup heater (a fraction of a percent of the demand, well above 0.01 kWh):
        # electricity is not a nearby carrier, so the output energy declared by the biomass system is what counts
        g = [max(x, Fraction(8)) for x in v()]       # at least 8 kWh per step: the backup stays above the code's 0.01 kWh guard
        e = [x / rng.choice([128, 256, 512]) for x in g]
        b.add("CONSUMO", id=1, service="ACS", carrier=rng.choice(["BIOMASA", "BIOMASADENSIFICADA"]), values=g)
        b.add("CONSUMO", id=2, service="ACS", carrier="ELECTRICIDAD", values=e)
        if rng.random() < 0.6:
            b.add("SALIDA", id=1, service="ACS", values=[x * Fraction(3, 4) for x in g])
            b.add("SALIDA", id=2, service="ACS", values=e)
            b.mix = "biomass_small_electric_out"
        else:
            b.mix = "biomass_small_electric_noout"
        demand = add(add(demand, g, Fraction(3, 4)), e)
    elif mix == "two_biomass":
        g, g2 = v(), v()
        b.add("CONSUMO", id=1, service="ACS", carrier="BIOMASA", values=g)
        b.add("CONSUMO", id=2, service="ACS", carrier="BIOMASADENSIFICADA", values=g2)
        b.add("SALIDA", id=1, service="ACS", values=[x * Fraction(3, 4) for x in g])
        b.add("SALIDA", id=2, service="ACS", values=[x * Fraction(3, 4) for x in g2])
        if rng.random() < 0.5:
            h = v()
            i = rng.choice([1, 2])
            b.add("CONSUMO", id=i, service="CAL", carrier="BIOMASA" if i == 1 else "BIOMASADENSIFICADA", values=h)
            b.add("SALIDA", id=i, service="CAL", values=[x * Fraction(3, 4) for x in h])
            b.tags.add("biomass_other_output")
        demand = add(add(demand, g, Fraction(3, 4)), g2, Fraction(3, 4))
    elif mix == "cogen_biomass":
        e = v()
        b.add("CONSUMO", id=1, service="ACS", carrier="ELECTRICIDAD", values=e)
        b.add("PRODUCCION", id=3, source="EL_COGEN", values=[x * rng.choice([Fraction(1, 2), 1]) for x in e])
        b.add("CONSUMO", id=3, service="COGEN", carrier=rng.choice(["BIOMASA", "GASNATURAL"]), values=[x * 2 for x in e])
        demand = add(demand, e)
    # demand declaration: consistent, absent, zero
    dm = rng.random()
    b.demand_kind = "consistent"
    if dm < 0.1:
        b.demand_kind = "absent"
    elif dm < 0.17:
        b.demand_kind = "zero"
        b.add("DEMANDA", service="ACS", values=[Fraction(0)] * n)
    else:
        b.add("DEMANDA", service="ACS", values=demand)
    # other services, non-EPB uses, on-site production for other services
    if rng.random() < 0.6:
        b.add("CONSUMO", id=5, service=rng.choice(["CAL", "REF", "VEN"]), carrier=rng.choice(["GASNATURAL", "GASOLEO", "BIOCARBURANTE"]), values=v())
    if rng.random() < 0.3:
        b.add("CONSUMO", id=6, service="NEPB", carrier=rng.choice(["GASNATURAL", "ELECTRICIDAD"]), values=v())
    if rng.random() < 0.3:
        b.add("DEMANDA", service="CAL", values=v())
    rng.shuffle(b.lines)
    return b


def text(b):
    return "\n".join(line_of(k, kw) for k, kw in b.lines) + "\n"


def add_noise_variant(rng, b):
    """same DHW supply plus non-EPB consumption and other services' non-electric consumption"""
    nb = gen.Building()
    nb.lines = list(b.lines)
    nb.n = b.n
    nb.add("CONSUMO", id=77, service="NEPB", carrier=rng.choice(["GASNATURAL", "GASOLEO"]), values=gen.vec(rng, b.n, pzero=0.0))
    nb.add("CONSUMO", id=78, service=rng.choice(["CAL", "REF"]), carrier=rng.choice(["GASNATURAL", "CARBON", "GLP"]), values=gen.vec(rng, b.n, pzero=0.0))
    return nb


def run(tier, seed):
    prop = "C15"
    R = check.Result(prop, tier, seed)
    rng = check.make_rng(prop, seed)
    n_model = 60 if tier == "quick" else 800
    n_oracle = 1200 if tier == "quick" else 20000
    meta = {"coverage": {"checker_cmd": "make -C coq theories/Props/C15.vo && coqc <Print Assumptions> (+ coqchk in thorough tier)",
                         "trusted_base": epcheck.TRUSTED_BASE,
                         "rule": "buildings whose DHW supply is one of: direct electric + PV, heat pump (with PV and auxiliaries, low-SCOP tag), "
                                 "solar thermal + boiler, district network, biomass alone / with nearby carriers / with gas with or without "
                                 "declared output, two biomass kinds, cogeneration; demand consistent, absent or zero; plus other services and "
                                 "non-EPB uses; non-trivial = a fraction is reported; variants: extra non-EPB / other-service consumption, k_exp"},
            "assumptions": ["consistency of the declared demand with the declared supply is constructed by the generator "
                            "(demand = sum of supplies times a conversion efficiency <= 1 for fuels)"]}
    try:
        core.build_runner()
    except core.BuildError as e:
        R.harness_errors.append(str(e)[-1500:])
        R.broken.append(("build of /repo's working tree failed", str(e)[-800:]))
        return R.finish(meta)
    ok, rep = check.proof_obligations(prop, THEOREMS)
    R.proof = rep
    if not ok:
        R.broken.append(("proof obligations", {k: rep.get(k) for k in ("failed", "failing_location", "forbidden_vernacular",
                                                                         "make_log_tail", "assumption_check_error", "assumptions")}))
    if tier == "thorough" and ok:
        cok, axioms, tail = check.coqchk(prop)
        meta["coverage"]["coqchk"] = {"ok": cok, "axioms": axioms}
        if not cok or axioms:
            R.broken.append(("coqchk", {"ok": cok, "axioms": axioms, "tail": tail}))
    cases = []
    for i in range(n_model + n_oracle):
        b = gen_dhw_building(rng)
        loc = rng.choice(core.LOCS)
        user = {}
        if rng.random() < 0.3:
            user["red1"] = [rng.randint(0, 1500) / 1000.0, rng.randint(1, 1500) / 1000.0, 0.1]
            user["red2"] = [rng.randint(0, 1500) / 1000.0, rng.randint(1, 1500) / 1000.0, 0.1]
        k, area, lm = gen.gen_params(rng)
        lm = False if b.n > 3 else lm
        base = epflow.EpCase("d%d" % i, {"text": text(b)}, {"loc": loc}, user, [(k, area, lm), (1.0 if k != 1 else 0.0, area, lm)],
                             strip=rng.random() < 0.5, tags=[b.mix, "demand_" + b.demand_kind], want=["acs"])
        base.b = b
        var = epflow.EpCase("d%dn" % i, {"text": text(add_noise_variant(rng, b))}, {"loc": loc}, user, [(k, area, lm)],
                            strip=base.strip, tags=base.tags, want=["acs"])
        cases.append((base, var))
    epflow.run_impl([c for p in cases for c in p])
    mcases = [b for b, _ in cases[:n_model]]
    R.harness_errors.extend(epflow.run_model(mcases, prop))
    tags = Counter()
    for c in mcases:
        if not epflow.impl_inputs_ok(c):
            tags["input_rejected"] += 1
            continue
        for i, ev in enumerate(c.impl.get("evals", [])):
            R.evaluations += 1
            m = c.model_acs.get(i)
            ia = ev.get("acs")
            iep = ev.get("ep", {})
            if "ok" not in iep:
                continue
            if m is None or ia is None:
                R.broken.append(("correspondence model/implementation (DHW fraction)", {"case": c.cid, "what": "missing result", "model": str(m)[:100]}))
                continue
            good = False
            if "ok" in ia and m[0] == "ok":
                x = Fraction(ia["ok"]) if not isinstance(ia["ok"], str) else None
                good = x is not None and abs(x - m[1]["acs"]) <= Fraction(1, 2000)
            elif "err" in ia and m[0] == "err":
                good = ia["err"] == m[1]
            if good:
                R.cases_validated += 1
            else:
                R.broken.append(("correspondence model/implementation (DHW fraction)",
                                 {"case": c.cid, "eval": i, "impl": str(ia)[:120], "model": str(m)[:120], "replay": c.replay()}))
        for t in c.tags:
            tags[t] += 1
    R.stats["model_vs_impl"] = {"cases": len(mcases), "agree": R.cases_validated, "tags": dict(tags)}
    # oracle on the implementation
    seen = set()
    otags = Counter()
    for base, var in cases:
        b = base.b
        if "evals" not in base.impl:
            continue
        for t in base.tags:
            otags[t] += 1
        ev0 = base.impl["evals"][0]
        if "ok" not in ev0.get("ep", {}):
            continue
        R.evaluations += 1
        a0 = ev0.get("acs", {})
        what = None
        detail = {"mix": b.mix, "demand": b.demand_kind, "acs": str(a0)[:120]}
        has_dhw_use = any(k == "CONSUMO" and kw["service"] == "ACS" for k, kw in b.lines)
        if b.demand_kind == "absent":
            if a0.get("err") != "WrongInput":
                what = "no DHW demand declared but no error reported"
        elif b.demand_kind == "zero":
            if a0.get("err") != "WrongInput":
                what = "zero DHW demand but no error reported"
        elif b.mix in ("biomass_gas_noout", "biomass_small_electric_noout"):
            if a0.get("err") != "WrongInput":
                what = "biomass mixed with a non-nearby carrier without declared output: no error reported"
        else:
            if "ok" not in a0 or isinstance(a0["ok"], str):
                what = "computable DHW mix but no fraction reported"
            else:
                x = Fraction(a0["ok"])
                seen.add(hashlib.sha1(json.dumps(base.job(), sort_keys=True).encode()).hexdigest())
                if x < -Fraction(1, 1000) or x > 1 + Fraction(1, 1000):
                    what = "DHW renewable fraction outside [0, 1] for a consistent demand"
                    detail["fraction"] = core.fstr(x)
                # independence of k_exp
                a1 = base.impl["evals"][1].get("acs", {})
                if "ok" in a1 and not isinstance(a1["ok"], str) and abs(Fraction(a1["ok"]) - x) > Fraction(1, 2000):
                    what = "DHW renewable fraction changes with k_exp"
                # independence of non-EPB and other services' non-electric consumption
                if "evals" in var.impl:
                    av = var.impl["evals"][0].get("acs", {})
                    if "ok" not in av or isinstance(av["ok"], str) or abs(Fraction(av["ok"]) - x) > Fraction(1, 2000):
                        what = "DHW renewable fraction changes with non-EPB / other services' non-electric consumption"
                        detail["variant"] = str(av)[:120]
                # closed forms of the canonical mixes
                want = closed_form(b, ev0["ep"]["ok"])
                if want is not None and abs(want - x) > Fraction(1, 500):
                    what = "DHW renewable fraction differs from the closed form of the mix"
                    detail["expected"] = core.fstr(want)
                    detail["fraction"] = core.fstr(x)
        if what and len(R.violations) < 3:
            payload = base.replay()
            payload.update({"what": what, "detail": detail})
            R.violations.append((what, payload))
    R.distinct_nontrivial = len(seen)
    R.stats["oracle_stream"] = {"cases": len(cases), "tags": dict(otags)}
    R.samples.append({"components_text": cases[0][0].comps_spec["text"][:1000], "evals": cases[0][0].evals})
    return R.finish(meta)


def closed_form(b, ep):
    """renewable fraction of the DHW demand for the canonical mixes, from the declared inputs"""
    demand = sum((sum(Fraction(v) for v in kw["values"]) for k, kw in b.lines if k == "DEMANDA" and kw["service"] == "ACS"), Fraction(0))
    if demand <= 0:
        return None
    use = lambda cr: sum((sum(Fraction(v) for v in kw["values"]) for k, kw in b.lines
                          if k == "CONSUMO" and kw["service"] == "ACS" and kw["carrier"] == cr), Fraction(0))
    if b.mix == "solar_boiler":
        return use("TERMOSOLAR") / demand
    if b.mix == "biomass_alone":
        cr = "BIOMASA" if use("BIOMASA") > 0 else "BIOMASADENSIFICADA"
        return FR[cr]
    if b.mix in ("biomass_gas_out", "two_biomass", "biomass_small_electric_out"):
        # the DHW output declared for each biomass system, weighted by the renewable share of its fuel
        tot = Fraction(0)
        for k, kw in b.lines:
            if k == "SALIDA" and kw["service"] == "ACS":
                crs = {kw2["carrier"] for k2, kw2 in b.lines if k2 == "CONSUMO" and kw2["id"] == kw["id"] and kw2["service"] == "ACS"}
                if crs <= {"BIOMASA", "BIOMASADENSIFICADA"} and len(crs) == 1:
                    tot += sum(Fraction(x) for x in kw["values"]) * FR[crs.pop()]
        return tot / demand
    if b.mix == "heat_pump":
        excl = any("EXCLUYE_SCOP" in kw.get("comment", "") for k, kw in b.lines if k == "CONSUMO")
        return Fraction(0) if excl else use("EAMBIENTE") / demand
    if b.mix == "electric_pv":
        used_pv = Fraction(ep["balance"]["prod"]["epus_by_srv_by_src"].get("EL_INSITU", {}).get("ACS", 0))
        return used_pv / demand
    if b.mix == "heat_pump_pv_aux":
        # ambient heat in full, plus the on-site electricity used for DHW less the share of it that feeds the auxiliaries
        if any("EXCLUYE_SCOP" in kw.get("comment", "") for k, kw in b.lines if k in ("CONSUMO", "PRODUCCION")):
            return None
        el = use("ELECTRICIDAD")
        aux = sum((sum(Fraction(v) for v in kw["values"]) for k, kw in b.lines if k == "AUX"), Fraction(0))
        if el < Fraction(1, 100) or el + aux <= 0:
            return None
        used_pv = Fraction(ep["balance"]["prod"]["epus_by_srv_by_src"].get("EL_INSITU", {}).get("ACS", 0))
        return (use("EAMBIENTE") + used_pv * (1 - aux / (el + aux))) / demand
    return None
