"""C18 — Components and factors survive being written out and read back"""
import hashlib
import json
import os
from collections import Counter
from fractions import Fraction

from .. import core, check, cliflow, epcheck, gen, oracles, parseflow as pf, textflow as tf

THEOREMS = ["C18_fields", "C18_stored_comments_are_trimmed", "C18_id", "C18_figure", "C18_consumption_line", "C18_production_line",
            "C18_auxiliary_line", "C18_output_line", "C18_demand_line", "C18_factor_line", "C18_metadata_line", "C18_factors_file",
            "C18_saved_factors_evaluate_the_same", "C18_components_file",
            "C18_components_file_computable"]

HALF2 = Fraction(5, 1000)
HALF3 = Fraction(5, 10000)


def close(a, b, half):
    a, b = Fraction(a), Fraction(b)
    return abs(a - b) <= half + abs(a) * Fraction(1, 10 ** 6) + Fraction(1, 10 ** 9)


def compare_components(c, c2):
    """same metadata, same components with the same tags, ids and comments, same demands, values at 2 decimals"""
    if c["meta"] != c2["meta"]:
        return "metadata differs after reading back: %s vs %s" % (c["meta"][:3], c2["meta"][:3])
    data2 = c2["data"]
    recompleted = False
    if len(c["data"]) != len(data2):
        # the text read back is normalised again: rounding to 2 decimals can leave a consumption of ambient / solar energy
        # a few hundredths above its production, for which one more automatic completion is created
        residue = lambda e: (e["kind"] == "Prod" and e.get("comment", "").startswith("Equilibrado de consumo")
                             and all(not isinstance(v, str) and abs(Fraction(v)) <= Fraction(3, 100) for v in e["values"]))
        n_extra = len(data2) - len(c["data"])
        kept, dropped = [], 0
        for j, e in enumerate(data2):
            # a residue completion that has no counterpart at the same position of the written list
            if dropped < n_extra and residue(e) and (len(kept) >= len(c["data"]) or any(
                    c["data"][len(kept)].get(k) != e.get(k) for k in ("kind", "id", "source", "comment")) or not all(
                    close(x, y, HALF2) for x, y in zip(c["data"][len(kept)]["values"], e["values"]))):
                dropped += 1
                continue
            kept.append(e)
        if n_extra > 0 and dropped == n_extra:
            data2 = kept
            recompleted = True
        else:
            extra = [e for e in c2["data"] if e.get("comment", "").startswith("Equilibrado")]
            return "%d components written, %d read back (%d automatic completions in the file read back)" % (len(c["data"]), len(c2["data"]), len(extra))
    for i, (a, b) in enumerate(zip(c["data"], data2)):
        for k in ("kind", "id", "carrier", "service", "source", "comment"):
            if a.get(k) != b.get(k):
                return "component %d: %s is %r, read back as %r" % (i, k, a.get(k), b.get(k))
        if len(a["values"]) != len(b["values"]):
            return "component %d: %d values written, %d read back" % (i, len(a["values"]), len(b["values"]))
        for x, y in zip(a["values"], b["values"]):
            if isinstance(x, str) or isinstance(y, str):
                if x != y:
                    return "component %d: value %s read back as %s" % (i, x, y)
            elif not close(x, y, HALF2):
                return "component %d: value %s read back as %s" % (i, x, y)
    for k in ("ACS", "CAL", "REF"):
        a, b = c["needs"].get(k), c2["needs"].get(k)
        if (a is None) != (b is None):
            return "demand %s present on one side only" % k
        if a is not None:
            if len(a) != len(b) or any(not isinstance(x, str) and not isinstance(y, str) and not close(x, y, HALF2) for x, y in zip(a, b)):
                return "demand %s differs after reading back" % k
    if recompleted:
        return "rounding-recompletion: %d components written, %d read back; the additional ones are automatic completions of at most 0.03 kWh per step" % (
            len(c["data"]), len(c2["data"]))
    return None


def compare_factors(f, f2):
    if f["wmeta"] != f2["wmeta"]:
        return "factor metadata differs after reading back"
    if len(f["wdata"]) != len(f2["wdata"]):
        return "%d factors written, %d read back" % (len(f["wdata"]), len(f2["wdata"]))
    for i, (a, b) in enumerate(zip(f["wdata"], f2["wdata"])):
        for k in ("carrier", "source", "dest", "step", "comment"):
            if a[k] != b[k]:
                return "factor %d: %s is %r, read back as %r" % (i, k, a[k], b[k])
        for k in ("ren", "nren", "co2"):
            if isinstance(a[k], str) or isinstance(b[k], str):
                if a[k] != b[k]:
                    return "factor %d: %s read back as %s" % (i, a[k], b[k])
            elif not close(a[k], b[k], HALF3):
                return "factor %d: %s = %s read back as %s" % (i, k, a[k], b[k])
    return None


def compare_results(ep, ep2, nvals, etot, fmax):
    """results of the saved files against the original evaluation, up to the written precision"""
    fa, fb = oracles.flat_ep(ep), oracles.flat_ep(ep2)
    tol_abs = (HALF2 * nvals * fmax * 2 + HALF3 * etot * 3) * Fraction(3, 2) + Fraction(1, 1000)
    tot = max(abs(fa.get("balance/we/a/0", Fraction(0))) + abs(fa.get("balance/we/a/1", Fraction(0))), Fraction(1))
    for k in sorted(set(fa) | set(fb)):
        if k in ("k_exp", "arearef") or "/misc" in k:
            continue
        x, y = fa.get(k, Fraction(0)), fb.get(k, Fraction(0))
        if k.startswith("rer"):
            # a ratio num / T with T = ren + nren of step B, which can nearly cancel when exported energy weighs more than the
            # delivered one (user factor sets): an error e on the weighted energies moves the ratio by about (e / |T|) (1 + 2 |ratio|);
            # when T itself is within the written precision the ratio says nothing
            T = abs(fa.get("balance/we/b/0", Fraction(0)) + fa.get("balance/we/b/1", Fraction(0)))
            if T <= 4 * tol_abs:
                continue
            tol = max(tol_abs * 2 / tot, tol_abs / T * (1 + 2 * abs(x))) + Fraction(2, 1000)
        elif k.startswith("balance_m2"):
            tol = tol_abs / max(Fraction(ep["arearef"]), Fraction(1, 1000)) + abs(x) * Fraction(1, 10 ** 4)
        else:
            tol = tol_abs + abs(x) * Fraction(1, 10 ** 4)
        if abs(x - y) > tol:
            return "%s: %s evaluated from the saved files, %s originally (tolerance %s)" % (k, core.fstr(y), core.fstr(x), core.fstr(tol))
    return None


CLI_CORPUS = [
    ("gas only", "CONSUMO, CAL, GASNATURAL, 100.0, 120.5, 80.25\nDEMANDA, CAL, 90.0, 100.0, 70.0\n"),
    ("biomass and solar thermal", "1, CONSUMO, ACS, BIOMASA, 50.0, 60.0\n1, CONSUMO, ACS, TERMOSOLAR, 20.0, 10.0\n1, PRODUCCION, TERMOSOLAR, 20.0, 10.0\n1, SALIDA, ACS, 60.0, 60.0\nDEMANDA, ACS, 60.0, 60.0\n"),
    ("district network", "2, CONSUMO, CAL, RED1, 300.0\n2, CONSUMO, REF, RED2, 100.0\n"),
    ("electricity only", "3, CONSUMO, ILU, ELECTRICIDAD, 100.0, 90.0\n3, PRODUCCION, EL_INSITU, 40.0, 120.0\n"),
    # user factors and parameters given both in the metadata and, differently, on the command line: the command line wins, and the
    # saved files must carry what was used
    ("district network, --red1 over metadata", "#META CTE_RED1: 0.0, 1.3, 0.3\n2, CONSUMO, CAL, RED1, 300.0\n3, CONSUMO, ACS, ELECTRICIDAD, 50.0\n",
     ["--red1", "0.8", "0.2", "0.05"]),
    ("district network, --red2 over metadata", "#META CTE_RED2: 0.1, 1.1, 0.2\n2, CONSUMO, REF, RED2, 300.0\n3, CONSUMO, ACS, ELECTRICIDAD, 50.0\n",
     ["--red2", "0.6", "0.5", "0.1"]),
    ("district network, factors in the metadata only", "#META CTE_RED1: 0.7, 0.4, 0.1\n#META CTE_RED2: 0.1, 1.1, 0.2\n2, CONSUMO, CAL, RED1, 300.0\n2, CONSUMO, REF, RED2, 100.0\n", []),
    ("k_exp and area over metadata", "#META CTE_KEXP: 0.0\n#META CTE_AREAREF: 100.0\n3, CONSUMO, ILU, ELECTRICIDAD, 100.0, 90.0\n3, PRODUCCION, EL_INSITU, 40.0, 120.0\n",
     ["-k", "1", "-a", "50"]),
]


def run(tier, seed):
    prop = "C18"
    R = check.Result(prop, tier, seed)
    rng = check.make_rng(prop, seed)
    quick = tier == "quick"
    meta = {"coverage": {"checker_cmd": "make -C coq theories/Props/C18.vo && coqc <Print Assumptions> (+ coqchk in thorough tier)",
                         "trusted_base": epcheck.TRUSTED_BASE + [
                             "file-level round trip (lines, metadata, re-normalisation of the text read back) is decided on the implementation; "
                             "the theorems are per record"],
                         "rule": "generated component files (1/2/3/12 steps, all kinds incl. auxiliary and output lines, legacy lines without id, "
                                 "comments with commas/hashes/non-ASCII, metadata, demands, values k/64 so that rounding to 2 decimals happens) and "
                                 "factor sets (user text, four locations, user RED factors): Display of the implementation compared character by "
                                 "character with show_components / show_factors of the model; the text read back by the model and by the "
                                 "implementation compared; the saved files re-evaluated; non-trivial = distinct files that parse"},
            "assumptions": ["finite values (inf / NaN texts are outside the rational model: checked for panic-freedom by C16)"]}
    try:
        core.build_runner()
        core.build_cli()
    except core.BuildError as e:
        R.harness_errors.append(str(e)[-1500:])
        R.broken.append(("build of /repo's working tree failed", str(e)[-800:]))
        return R.finish(meta)
    ok, rep = check.proof_obligations(prop, THEOREMS, extra_targets=["theories/Model/ParseCheck.vo"])
    R.proof = rep
    if not ok:
        R.broken.append(("proof obligations", {k: rep.get(k) for k in ("failed", "failing_location", "forbidden_vernacular",
                                                                         "make_log_tail", "assumption_check_error", "assumptions")}))
    if tier == "thorough" and ok:
        cok, axioms, tail = check.coqchk(prop)
        meta["coverage"]["coqchk"] = {"ok": cok, "axioms": axioms}
        if not cok or axioms:
            R.broken.append(("coqchk", {"ok": cok, "axioms": axioms, "tail": tail}))
    stats = Counter()
    seen = set()
    known = [f for f in check.load_known()["findings"] if f.get("property") == prop]

    n = 60 if quick else 1200
    jobs, texts = [], {}
    # the recorded findings first, so that each is reproduced (and reported as KNOWN-FINDING) by every run
    WITNESSES = [
        # a cogenerated electricity within a few units of the printed precision governs the cogeneration factor
        ("w0", "1, CONSUMO, COGEN, BIOCARBURANTE, 478.1875\n1, PRODUCCION, EL_COGEN, 0.015625\n2, CONSUMO, ILU, ELECTRICIDAD, 0.0126953125\n3, CONSUMO, CAL, GASNATURAL, 100.0\n", "PENINSULA"),
        # rounding of an ambient-heat use and of its production leaves a cent uncovered: completed again when read back
        ("w1", "1, CONSUMO, ACS, EAMBIENTE, 10.015625, 20.265625\n1, PRODUCCION, EAMBIENTE, 10.015625, 20.234375\n1, CONSUMO, ACS, ELECTRICIDAD, 5.0, 5.0\n", "PENINSULA"),
    ]
    for wid, wtxt, wloc in WITNESSES:
        job = {"id": wid, "comps": {"text": wtxt}, "factors": {"loc": wloc}, "user": {}, "strip": False, "evals": [["0", "1", False]],
               "want": ["comps_display", "comps_roundtrip", "factors_display", "factors_roundtrip"]}
        jobs.append(job)
        texts[wid] = wtxt
    for i in range(n):
        txt, b = tf.render_case_text(rng, plain_comments=(i % 4 == 3))
        # legacy lines without id, now and then
        if rng.random() < 0.3:
            lines = txt.split("\n")
            txt = "\n".join((l.split(",", 1)[1].strip() if (l[:1].isdigit() or l[:1] == "-") and rng.random() < 0.5 and ", SALIDA" not in l else l) for l in lines)
        fspec, user = gen.gen_factors_spec(rng)
        k, area, lm = gen.gen_params(rng)
        job = {"id": "c%d" % i, "comps": {"text": txt}, "factors": fspec, "user": user, "strip": rng.random() < 0.5,
               "evals": [[core.fstr(k) if not isinstance(k, str) else k, core.fstr(area) if not isinstance(area, str) else area, bool(lm)]],
               "want": ["comps_display", "comps_roundtrip", "factors_display", "factors_roundtrip"]}
        jobs.append(job)
        texts[job["id"]] = txt
    res = {r["id"]: r for r in core.run_jobs(jobs)}
    items, keep, second = [], {}, []
    for job in jobs:
        cid = job["id"]
        r = res.get(cid, {})
        c, f = r.get("comps", {}), r.get("factors", {})
        if "ok" not in c or "ok" not in f or not pf.components_finite(c["ok"]) or not pf.factors_finite(f["ok"]):
            stats["not_parsed"] += 1
            continue
        keep[cid] = (job, r)
        items.append((cid + ".dc", "", "same_text (show_components %s) %s" % (pf.g_components_u8(c["ok"]), pf.u8(r["comps_display"]))))
        items.append((cid + ".df", "", "same_text (show_factors %s) %s" % (pf.g_factors_u8(f["stripped"]["ok"] if False else f["ok"]), pf.u8(r["factors_display"]))))
        # on which written files does the file-level theorem (C18_components_file) speak?
        items.append((cid + ".hy", "", "Cteepbd.Proofs.CompFile.file_hypb %s" % pf.g_components_u8(c["ok"])))
        frt = r.get("factors_roundtrip", {})
        items.append((cid + ".pf", "", "verdict factors_eqb (parse_factors %s) %s" % (
            pf.u8(r["factors_display"]), pf.g_pres_factors({k: v for k, v in frt.items() if k != "text2"}))))
        # evaluation of the saved files
        second.append({"id": cid, "comps": {"text": r["comps_display"]}, "factors": {"text": r["factors_display"], "raw": True},
                       "strip": False, "evals": job["evals"]})
    out, errs = core.run_coq_cases(prop, items, header=pf.HEADER + "From Cteepbd Require Proofs.CompFile.\n")
    R.harness_errors.extend(errs)
    res2 = {r["id"]: r for r in core.run_jobs(second)}
    first_eval = {}
    for cid, (job, r) in keep.items():
        R.evaluations += 1
        c, f = r["comps"]["ok"], r["factors"]["ok"]
        replay = {"components": texts[cid], "job": {k: v for k, v in job.items() if k != "want"}}
        what = None
        from_results = False      # only a difference between the two evaluations can be blamed on the printed precision
        rt = r.get("comps_roundtrip", {})
        if "ok" not in rt:
            what = "the components written do not read back: %s" % json.dumps(rt, ensure_ascii=False)[:200]
        else:
            what = compare_components(c, rt["ok"])
        recompletion = what if (what or "").startswith("rounding-recompletion") else None
        if recompletion:
            what = None
        if not what:
            frt = r.get("factors_roundtrip", {})
            if "ok" not in frt:
                what = "the factors written do not read back: %s" % json.dumps(frt, ensure_ascii=False)[:200]
            else:
                what = compare_factors(f, frt["ok"])
        ev1 = (r.get("evals") or [{}])[0].get("ep", {})
        ev2 = (res2.get(cid, {}).get("evals") or [{}])[0].get("ep", {})
        if not what:
            if ("ok" in ev1) != ("ok" in ev2):
                # an evaluation error must be the same on both sides
                k1 = ev1.get("err") or ("ok" if "ok" in ev1 else "?")
                k2 = ev2.get("err") or res2.get(cid, {}).get("comps", {}).get("err") or res2.get(cid, {}).get("factors", {}).get("err") or ("ok" if "ok" in ev2 else "?")
                what = "the saved files evaluate to '%s', the original evaluation to '%s'" % (k2, k1)
                from_results = True
            elif "ok" in ev1:
                vals = [abs(Fraction(v)) for e in c["data"] for v in e["values"]]
                fmax = max([abs(Fraction(x[k])) for x in f["wdata"] for k in ("ren", "nren", "co2")] + [Fraction(1)])
                what = compare_results(ev1["ok"], ev2["ok"], len(vals), sum(vals), fmax)
                from_results = bool(what)
                stats["re_evaluated"] += 1
        if not what and recompletion:
            what = recompletion
        if what and from_results:
            # a non-zero value within a few units of the printed precision: rounding it changes it by more than 1 %, and where such a
            # value governs a ratio (cogenerated electricity, output energy shares) the saved file cannot evaluate alike
            tiny = [Fraction(v) for e in c["data"] for v in e["values"] if not isinstance(v, str) and 0 < abs(Fraction(v)) < Fraction(1, 2)]
            if tiny:
                what = "ill-conditioned: a value of %s kWh is written with 2 decimals; %s" % (core.fstr(min(tiny, key=abs)), what)
        if what:
            cls = None
            for kf in known:
                if kf.get("match") and kf["match"] in what:
                    cls = kf
            if cls:
                stats["known_" + cls["class"]] += 1
                msg = "%s [%s]" % (cls["what"], cls["id"])
                if msg not in R.known_hits:
                    R.known_hits.append(msg)
                R.cases_validated += 1
            elif len(R.violations) < 4:
                replay["what"] = what
                replay["written"] = r["comps_display"][:1500]
                R.violations.append((what.split(":")[0][:70], replay))
            continue
        okc = True
        hy = (out.get(cid + ".hy") or "")
        stats["file_theorem_hypotheses_" + ("met" if "true" in hy else "not_met" if "false" in hy else "unknown")] += 1
        for suf, lab in ((".dc", "show_components vs Display"), (".df", "show_factors vs Display")):
            d = tf.parse_diff(out.get(cid + suf))
            if d == "unparsed":
                R.harness_errors.append("unparsable model output for %s%s" % (cid, suf))
                okc = False
            elif d is not None:
                okc = False
                src = r["comps_display"] if suf == ".dc" else r["factors_display"]
                R.broken.append(("correspondence Model.Parse.%s" % lab, {"first_difference_at_char": d[0], "model_char": d[1], "impl_char": d[2],
                                                                          "impl_context": src[max(0, d[0] - 60):d[0] + 30], "components": texts[cid]}))
        for suf, lab in ((".pf", "parse_factors"),):
            v = pf.parse_verdict(out.get(cid + suf))
            if v is None:
                R.harness_errors.append("unparsable verdict for %s%s: %s" % (cid, suf, (out.get(cid + suf) or "")[:100]))
                okc = False
            elif not v[0]:
                okc = False
                R.broken.append(("correspondence Model.Parse.%s on the written text" % lab, {"model_outcome": v[1], "text": (r["comps_display"] if suf == ".pc" else r["factors_display"])[:800]}))
        if okc:
            R.cases_validated += 1
            seen.add(hashlib.sha1(texts[cid].encode("utf-8", "surrogatepass")).hexdigest())

    # ---------------------------------------------------------------- the program: --oc / --of, then the saved files again
    d = cliflow.workdir("c18")
    try:
        # corpus first: buildings whose saved factors lack a carrier the reader used to insist on (fix 1505fba)
        for ci, item in enumerate(CLI_CORPUS):
            name, ctext, extra = item if len(item) == 3 else (item[0], item[1], [])
            for loc in ("PENINSULA", "CANARIAS"):
                cp = os.path.join(d, "k%d.csv" % ci)
                open(cp, "w", encoding="utf-8").write(ctext)
                oc, of = os.path.join(d, "koc%d.csv" % ci), os.path.join(d, "kof%d.csv" % ci)
                a1 = ["-c", cp, "-l", loc, "--oc", oc, "--of", of, "--json", os.path.join(d, "ka%d.json" % ci)] + extra
                r1 = cliflow.run_cli(a1, d)
                if r1["exit"] != 0:
                    R.harness_errors.append("corpus building %s is refused: %s" % (name, r1["stderr"][-200:]))
                    continue
                r2 = cliflow.run_cli(["-c", oc, "-f", of, "--json", os.path.join(d, "kb%d.json" % ci)], d)
                # the saved components alone: they record the location, the user factors and the parameters that were used
                r3 = cliflow.run_cli(["-c", oc, "--json", os.path.join(d, "kc%d.json" % ci)], d)
                R.evaluations += 1
                stats["cli_corpus_pairs"] += 1
                what = None
                if r2["exit"] != 0:
                    what = "the files saved with --oc / --of are refused (exit %s): %s" % (r2["exit"], r2["stderr"][-200:])
                elif r3["exit"] != 0:
                    what = "the components saved with --oc are refused (exit %s): %s" % (r3["exit"], r3["stderr"][-200:])
                else:
                    ja = json.load(open(os.path.join(d, "ka%d.json" % ci)))
                    for lab, fn in (("--oc / --of", "kb%d.json"), ("--oc alone", "kc%d.json")):
                        jb = json.load(open(os.path.join(d, fn % ci)))
                        if abs(ja["k_exp"] - jb["k_exp"]) > 1e-6 or abs(ja["arearef"] - jb["arearef"]) > 1e-6 * max(1, ja["arearef"]):
                            what = "k_exp / area from the files saved with %s (%s, %s) are not the ones used (%s, %s)" % (lab, jb["k_exp"], jb["arearef"], ja["k_exp"], ja["arearef"])
                        for key in ("ren", "nren", "co2"):
                            x, y = Fraction(ja["balance"]["we"]["b"][key]), Fraction(jb["balance"]["we"]["b"][key])
                            if abs(x - y) > Fraction(1, 2) + abs(x) * Fraction(1, 1000):
                                what = "weighted energy B (%s) from the files saved with %s is %s, originally %s" % (key, lab, core.fstr(y), core.fstr(x))
                if what:
                    if len(R.violations) < 4:
                        R.violations.append((what.split(" (")[0][:70], {"what": what, "components": ctext, "args": [x.replace(d, "<dir>") for x in a1]}))
                else:
                    R.cases_validated += 1
        # (the witnesses of the recorded findings are judged by the in-process stage above, which classifies them)
        for i, (cid, (job, r)) in enumerate([kv for kv in keep.items() if not kv[0].startswith("w")][: (8 if quick else 100)]):
            if not isinstance(job["factors"].get("loc"), str):
                continue
            cp = os.path.join(d, "c%d.csv" % i)
            open(cp, "w", encoding="utf-8", errors="surrogatepass").write(texts[cid])
            k, area, lm = job["evals"][0]
            oc, of = os.path.join(d, "oc%d.csv" % i), os.path.join(d, "of%d.csv" % i)
            a1 = ["-c", cp, "-l", job["factors"]["loc"], "-k", k, "-a", area, "--oc", oc, "--of", of, "--json", os.path.join(d, "a%d.json" % i)] + (["--load_matching"] if lm else [])
            r1 = cliflow.run_cli(a1, d)
            if r1["exit"] != 0:
                stats["cli_first_exit_%s" % r1["exit"]] += 1
                continue
            a2 = ["-c", oc, "-f", of, "--json", os.path.join(d, "b%d.json" % i)] + (["--load_matching"] if lm else [])
            r2 = cliflow.run_cli(a2, d)
            R.evaluations += 1
            stats["cli_pairs"] += 1
            what = None
            if r2["exit"] != 0:
                what = "the files saved with --oc / --of are refused (exit %s): %s" % (r2["exit"], r2["stderr"][-200:])
            else:
                ja = json.load(open(os.path.join(d, "a%d.json" % i)))
                jb = json.load(open(os.path.join(d, "b%d.json" % i)))
                if abs(ja["k_exp"] - jb["k_exp"]) > 1e-6 or abs(ja["arearef"] - jb["arearef"]) > 1e-6 * max(1, ja["arearef"]):
                    what = "k_exp / area of the saved files (%s, %s) are not the ones used (%s, %s)" % (jb["k_exp"], jb["arearef"], ja["k_exp"], ja["arearef"])
                else:
                    nv = sum(len(e["values"]) for e in r["comps"]["ok"]["data"])
                    et = sum(abs(Fraction(v)) for e in r["comps"]["ok"]["data"] for v in e["values"])
                    for key in ("ren", "nren", "co2"):
                        x, y = Fraction(ja["balance"]["we"]["b"][key]), Fraction(jb["balance"]["we"]["b"][key])
                        tol = (HALF2 * nv * 3 * 2 + HALF3 * et * 3) * Fraction(3, 2) + Fraction(1, 100) + abs(x) * Fraction(1, 10 ** 4)
                        if abs(x - y) > tol:
                            what = "weighted energy B (%s) from the saved files is %s, originally %s" % (key, core.fstr(y), core.fstr(x))
            if what:
                if len(R.violations) < 4:
                    R.violations.append((what.split(" (")[0][:70], {"what": what, "components": texts[cid], "args": [x.replace(d, "<dir>") for x in a1]}))
            else:
                R.cases_validated += 1
    finally:
        cliflow.cleanup(d)
    R.distinct_nontrivial = len(seen)
    R.stats["stages"] = dict(stats)
    if keep:
        cid = next(iter(keep))
        R.samples.append({"components": texts[cid][:500]})
    return R.finish(meta)
