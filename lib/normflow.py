"""Correspondence for Components::normalize: raw (un-normalised) components are handed to the
implementation as JSON (serde) and to the model as Gallina terms."""
from fractions import Fraction

from . import core, gen

KIND_SERDE = {"CONSUMO": "Used", "PRODUCCION": "Prod", "AUX": "Aux", "SALIDA": "Out"}


def building_to_json(b):
    """lib.gen.Building -> serde JSON of cteepbd::Components (not normalised; AUX service = NEPB as the parser sets it)"""
    data = []
    needs = {}
    for kind, kw in b.lines:
        vals = [float(v) for v in kw["values"]]
        cm = kw.get("comment", "")
        if kind == "CONSUMO":
            data.append({"Used": {"id": kw["id"], "carrier": kw["carrier"], "service": kw["service"], "values": vals, "comment": cm}})
        elif kind == "PRODUCCION":
            data.append({"Prod": {"id": kw["id"], "source": kw["source"], "values": vals, "comment": cm}})
        elif kind == "AUX":
            data.append({"Aux": {"id": kw["id"], "service": "NEPB", "values": vals, "comment": cm}})
        elif kind == "SALIDA":
            data.append({"Out": {"id": kw["id"], "service": kw["service"], "values": vals, "comment": cm}})
        elif kind == "DEMANDA":
            cur = needs.get(kw["service"])
            needs[kw["service"]] = vals if cur is None else [a + c for a, c in zip(cur, vals)]
    return {"meta": [], "data": data, "needs": needs}


def json_to_dump(cj):
    """the same raw components in the runner's dump format (what g_components expects)"""
    out = []
    for item in cj["data"]:
        (k, v), = item.items()
        d = dict(v)
        d["kind"] = k
        out.append(d)
    return {"meta": [], "data": out, "needs": {k: cj["needs"].get(k) for k in ("ACS", "CAL", "REF")}}


def canon_comp(e):
    """canonical sortable form of a dumped component (runner format)"""
    k = e["kind"]
    tag = (e.get("carrier", ""), e.get("service", ""), e.get("source", ""))
    return (e["id"], k, tag, tuple(Fraction(v) for v in e["values"]))


KINDS = ["Used", "Prod", "Aux", "Out"]


def comps_from_rows(rows):
    """rebuild components (runner dump format) from the model's dump_data rows"""
    comps = {}
    for path, v in rows.items():
        parts = path.split("/")
        i = int(parts[0])
        c = comps.setdefault(i, {"values": {}})
        if parts[1] == "v":
            c["values"][int(parts[2])] = v
        else:
            c[parts[1]] = v
    out = []
    for i in sorted(comps):
        c = comps[i]
        kind = KINDS[int(c["kind"])]
        e = {"kind": kind, "id": int(c["id"]), "values": [c["values"][t] for t in sorted(c["values"])]}
        t1 = int(c["t1"])
        t2 = int(c["t2"])
        if kind == "Used":
            e["carrier"] = core.CARRIERS[t1]
            e["service"] = core.SERVICES[t2]
        elif kind == "Prod":
            e["source"] = core.PRODSOURCES[t1]
        else:
            e["service"] = core.SERVICES[t1]
        out.append(e)
    return out


def compare_comps(impl_list, model_list, tol_rel=Fraction(2, 100000)):
    """multiset comparison per (id, kind, tags); values within tolerance. Returns list of differences."""
    def key(e):
        return (e["id"], e["kind"], e.get("carrier", ""), e.get("service", ""), e.get("source", ""))
    bad = []
    gi, gm = {}, {}
    for e in impl_list:
        gi.setdefault(key(e), []).append([Fraction(v) for v in e["values"]])
    for e in model_list:
        gm.setdefault(key(e), []).append([Fraction(v) for v in e["values"]])
    for k in sorted(set(gi) | set(gm), key=str):
        a = sorted(gi.get(k, []))
        b = sorted(gm.get(k, []))
        if len(a) != len(b):
            bad.append({"key": k, "impl_count": len(a), "model_count": len(b)})
            continue
        for va, vb in zip(a, b):
            if len(va) != len(vb):
                bad.append({"key": k, "what": "length", "impl": len(va), "model": len(vb)})
                break
            sc = max([abs(x) for x in va] + [Fraction(1)])
            if any(abs(x - y) > tol_rel * sc + Fraction(1, 1000000) for x, y in zip(va, vb)):
                bad.append({"key": k, "impl": [core.fstr(x) for x in va], "model": [core.fstr(x) for x in vb]})
                break
    return bad


class NormCase:
    def __init__(self, cid, cj, tags=()):
        self.cid = cid
        self.cj = cj
        self.tags = set(tags)
        self.impl = None
        self.model = None

    def job(self):
        return {"id": self.cid, "comps": {"json": self.cj, "normalize": True}, "want": ["normalize_twice"]}

    def replay(self):
        return {"runner_job": self.job()}


NOT_EPB = ("NEPB", "COGEN")


def gen_norm_building(rng):
    """buildings that stress completion and auxiliary assignment"""
    b = gen.gen_building(rng, allow_multi_aux=True, n=rng.choice([1, 2, 3, 3, 12]))
    n = b.n
    r = rng.random()
    if r < 0.25:
        # a multi-service system with heating and cooling outputs and auxiliaries
        i = rng.choice([21, 22, -4])
        b.add("CONSUMO", id=i, service="CAL", carrier="ELECTRICIDAD", values=gen.vec(rng, n))
        b.add("CONSUMO", id=i, service="REF", carrier="ELECTRICIDAD", values=gen.vec(rng, n))
        oc, orf = gen.vec(rng, n, pzero=0.3), [-x for x in gen.vec(rng, n, pzero=0.3)]
        if rng.random() < 0.4:
            # some steps where the system is nearly idle: outputs of a few millionths of a kWh (the shares are ratios: still defined)
            for t in range(n):
                if rng.random() < 0.5:
                    f = Fraction(1, 2 ** rng.choice([12, 16, 20]))
                    oc[t], orf[t] = oc[t] * f, orf[t] * f
            b.tags.add("aux_tiny_output")
        if rng.random() < 0.4:
            # several output lines for one service (several circuits of one system): what counts is their sum
            b.add("SALIDA", id=i, service="CAL", values=[x / 4 for x in oc])
            b.add("SALIDA", id=i, service="CAL", values=[x * 3 / 4 for x in oc])
            b.tags.add("aux_split_output")
        else:
            b.add("SALIDA", id=i, service="CAL", values=oc)
        b.add("SALIDA", id=i, service="REF", values=orf)
        b.add("AUX", id=i, values=gen.vec(rng, n, hi=64 * 20, pzero=0.1))
        b.tags.add("aux_heat_cool")
    elif r < 0.35:
        # auxiliaries as the only electricity of the building
        b.lines = [(k, kw) for k, kw in b.lines if not (k in ("CONSUMO", "PRODUCCION") and (kw.get("carrier") == "ELECTRICIDAD" or kw.get("source", "").startswith("EL_")))]
        b.lines = [(k, kw) for k, kw in b.lines if k != "AUX"]
        b.add("CONSUMO", id=31, service="CAL", carrier="GASNATURAL", values=gen.vec(rng, n))
        b.add("AUX", id=31, values=gen.vec(rng, n, hi=64 * 20, pzero=0.0))
        b.tags.add("aux_only_electricity")
    elif r < 0.6:
        # systems whose declared production exceeds the use at some steps and falls short at others
        for i in rng.sample([51, 52, 53], rng.randint(1, 2)):
            cr = rng.choice(["EAMBIENTE", "TERMOSOLAR"])
            u = gen.vec(rng, max(n, 1), pzero=0.1)
            b.add("CONSUMO", id=i, service=rng.choice(["ACS", "CAL"]), carrier=cr, values=u)
            b.add("PRODUCCION", id=i, source=cr, values=[x * rng.choice([0, Fraction(1, 2), 1, 2, 3]) + rng.choice([0, 0, 5]) for x in u])
        b.tags.add("onsite_mixed_per_step")
    elif r < 0.7:
        # two systems with declared ambient production, one surplus, one short
        for i, f in ((41, Fraction(3, 2)), (42, Fraction(1, 2))):
            u = gen.vec(rng, n, pzero=0.1)
            b.add("CONSUMO", id=i, service="ACS", carrier="EAMBIENTE", values=u)
            b.add("PRODUCCION", id=i, source="EAMBIENTE", values=[x * f for x in u])
        b.tags.add("amb_two_systems")
    if rng.random() < 0.2:
        # a unit with one EPB service whose id also carries a use that is not an EPB service (the fuel of a cogeneration unit, a
        # non-EPB use): it serves one service, so all its auxiliary energy goes there and no output energy is needed
        i = rng.choice([61, 62])
        srv = rng.choice(["CAL", "ACS", "REF"])
        if rng.random() < 0.6:
            el = gen.vec(rng, n, pzero=0.0)
            b.add("CONSUMO", id=i, service="COGEN", carrier=rng.choice(["GASNATURAL", "BIOMASA"]), values=[x * 9 / 4 for x in el])
            b.add("PRODUCCION", id=i, source="EL_COGEN", values=el)
        else:
            b.add("CONSUMO", id=i, service="NEPB", carrier=rng.choice(["ELECTRICIDAD", "GASNATURAL"]), values=gen.vec(rng, n))
        u = gen.vec(rng, n, pzero=0.2)
        b.add("CONSUMO", id=i, service=srv, carrier=rng.choice(["GASNATURAL", "ELECTRICIDAD"]), values=u)
        if rng.random() < 0.5:
            b.add("SALIDA", id=i, service=srv, values=[x * 7 / 8 for x in u])       # zero where the use is zero
        b.add("AUX", id=i, values=gen.vec(rng, n, hi=64 * 20, pzero=0.0))
        b.tags.add("aux_unit_with_non_service_use")
    rng.shuffle(b.lines)
    return b


def gen_cases(rng, count, prefix="n"):
    out = []
    for i in range(count):
        b = gen_norm_building(rng)
        out.append(NormCase("%s%d" % (prefix, i), building_to_json(b), tags=b.tags))
        out[-1].n = b.n
    return out


def run_impl(cases):
    res = core.run_jobs([c.job() for c in cases])
    for c, r in zip(cases, res):
        c.impl = r


def run_model(cases, prop):
    items = []
    for c in cases:
        raw = json_to_dump(c.cj)
        defs = "Definition norm_%s := %s." % (c.cid, core.g_components(raw))
        expr = "outcome_of (normalize_data (c_data norm_%s)) dump_data" % c.cid
        items.append((c.cid, defs, expr))
    out, errors = core.run_coq_cases(prop, items)
    for c in cases:
        t = out.get(c.cid)
        if t is not None:
            c.model = core.parse_outcome(t)
    return errors


def compare_case(c):
    bad = []
    r = c.impl.get("comps", {})
    m = c.model
    if m is None:
        return [{"what": "model produced no result"}]
    if "ok" in r:
        if m[0] != "ok":
            return [{"what": "impl Ok, model %s" % (m[:2],)}]
        nf = nonfinite_in(r["ok"]["data"])
        if nf:
            return [{"what": "the implementation returns a value that is not a finite number for a finite input", "component": {k: nf[0].get(k) for k in ("id", "kind", "service", "values")}}]
        return compare_comps(r["ok"]["data"], comps_from_rows(m[1]))
    if "err" in r:
        if m[0] != "err" or m[1] != r["err"]:
            return [{"what": "impl Err %s, model %s" % (r["err"], m[0] if m[0] == "ok" else m[:2])}]
        return []
    return [{"what": "impl: %s" % str(r)[:200]}]


def order_signature(comps):
    return [(e["id"], e["kind"], e.get("carrier", ""), e.get("service", ""), e.get("source", ""))
            for e in comps if e["kind"] != "Aux"]


def compare_case_full(c):
    bad = compare_case(c)
    r = c.impl.get("comps", {})
    if not bad and "ok" in r and c.model and c.model[0] == "ok":
        a = order_signature(r["ok"]["data"])
        b = order_signature(comps_from_rows(c.model[1]))
        if a != b:
            bad.append({"what": "order of non-auxiliary components differs", "impl": a[:8], "model": b[:8]})
    return bad


# ---------------------------------------------------------------- oracles on implementation outputs

def _vals(e):
    return [Fraction(v) for v in e["values"]]


def nonfinite_in(comps):
    """components of the implementation's answer holding a value that is not a finite number (the runner writes them as text)"""
    return [e for e in comps if any(isinstance(v, str) and v.strip().lower().lstrip("+-") in ("nan", "inf", "infinity") for v in e["values"])]


def _sumv(vs, n):
    out = [Fraction(0)] * n
    for v in vs:
        for t in range(min(n, len(v))):
            out[t] += v[t]
    return out


def oracle_c05(c):
    """raw JSON components vs implementation-normalised components"""
    bad = []
    r = c.impl.get("comps", {})
    if "ok" not in r:
        return bad
    raw = json_to_dump(c.cj)["data"]
    norm = r["ok"]["data"]
    nf = nonfinite_in(norm)
    if nf:
        return [("normalisation of finite components produced a value that is not a finite number", {"id": nf[0].get("id"), "kind": nf[0].get("kind"), "values": nf[0]["values"][:12]})]
    n = max([len(e["values"]) for e in raw] + [1])
    tol = Fraction(1, 100000) * max([abs(Fraction(v)) for e in raw for v in e["values"]] + [Fraction(1)]) + Fraction(1, 1000000)
    # (a) every declared non-AUX component is kept unchanged
    def key(e):
        return (e["id"], e["kind"], e.get("carrier", ""), e.get("service", ""), e.get("source", ""),
                tuple(Fraction(v) for v in e["values"]))
    from collections import Counter
    cr = Counter(key(e) for e in raw if e["kind"] != "Aux")
    cn = Counter(key(e) for e in norm if e["kind"] != "Aux")
    lost = cr - cn
    if lost:
        bad.append(("a declared component was dropped or altered", {"lost": [str(k)[:200] for k in list(lost)[:3]]}))
    extra = cn - cr
    # (b) what was added must be exactly the completion rule
    for carrier, source in (("EAMBIENTE", "EAMBIENTE"), ("TERMOSOLAR", "TERMOSOLAR")):
        ids = {e["id"] for e in raw if (e["kind"] == "Used" and e["carrier"] == carrier) or (e["kind"] == "Prod" and e["source"] == source)}
        for i in ids:
            use = _sumv([_vals(e) for e in raw if e["kind"] == "Used" and e["carrier"] == carrier and e["id"] == i], n)
            has_use = any(e["kind"] == "Used" and e["carrier"] == carrier and e["id"] == i for e in raw)
            decl_list = [_vals(e) for e in raw if e["kind"] == "Prod" and e["source"] == source and e["id"] == i]
            decl = _sumv(decl_list, n)
            after = _sumv([_vals(e) for e in norm if e["kind"] == "Prod" and e["source"] == source and e["id"] == i], n)
            for t in range(n):
                if not has_use:
                    want = Fraction(0)
                else:
                    want = max(Fraction(0), use[t] - decl[t])
                if abs((after[t] - decl[t]) - want) > tol:
                    bad.append(("completed production != max(0, use - declared production) of that system",
                                {"carrier": carrier, "id": i, "step": t, "use": core.fstr(use[t]), "declared": core.fstr(decl[t]),
                                 "after": core.fstr(after[t])}))
                    break
    for k in extra:
        if not (k[1] == "Prod" and k[4] in ("EAMBIENTE", "TERMOSOLAR")):
            bad.append(("normalisation added a component that is not an ambient/solar production", {"added": str(k)[:200]}))
    # (c) idempotence
    r2 = c.impl.get("normalize_twice", {})
    if "ok" in r2:
        d = compare_comps(norm, r2["ok"]["data"])
        if d:
            bad.append(("normalising a normalised set changes it", {"diff": d[:3]}))
    elif r2:
        bad.append(("normalising a normalised set fails", {"result": str(r2)[:200]}))
    return bad


def oracle_c06(c):
    """auxiliary energy: conserved per system and step, right services, non-negative"""
    bad = []
    r = c.impl.get("comps", {})
    raw = json_to_dump(c.cj)["data"]
    n = max([len(e["values"]) for e in raw] + [1])
    scale = max([abs(Fraction(v)) for e in raw for v in e["values"]] + [Fraction(1)])
    tol = Fraction(1, 50000) * scale + Fraction(1, 1000000)
    aux_ids = {e["id"] for e in raw if e["kind"] == "Aux"}
    if "ok" not in r:
        # the only admissible error: multi-service system, auxiliaries > 0, no output energy at all
        if r.get("err") == "WrongInput" and aux_ids:
            for i in aux_ids:
                srvs = {e["service"] for e in raw if e["kind"] == "Used" and e["id"] == i and e["service"] not in NOT_EPB}
                declared = sum(sum(_vals(e)) for e in raw if e["kind"] == "Aux" and e["id"] == i)
                outs = [e for e in raw if e["kind"] == "Out" and e["id"] == i]
                qtot = sum(abs(x) for x in _sumv([[abs(v) for v in _vals(e)] for e in outs], n))
                if len(srvs) != 1 and declared > 0 and all(sum(abs(v) for v in _vals(e)) == 0 for e in outs):
                    return bad
            bad.append(("auxiliary assignment failed although every multi-service system with auxiliaries has output energy",
                        {"error": r.get("msg", "")[:200]}))
        return bad
    norm = r["ok"]["data"]
    nf = nonfinite_in(norm)
    if nf:
        return [("an auxiliary share is not a finite number (finite input)" if nf[0].get("kind") == "Aux" else
                 "normalisation of finite components produced a value that is not a finite number",
                 {"id": nf[0].get("id"), "kind": nf[0].get("kind"), "service": nf[0].get("service"), "values": nf[0]["values"][:12]})]
    for i in aux_ids:
        declared = _sumv([_vals(e) for e in raw if e["kind"] == "Aux" and e["id"] == i], n)
        after_list = [e for e in norm if e["kind"] == "Aux" and e["id"] == i]
        after = _sumv([_vals(e) for e in after_list], n)
        # only EPB services count: a non-EPB use or the fuel input of a cogeneration unit is not a service the system serves
        srvs = sorted({e["service"] for e in raw if e["kind"] == "Used" and e["id"] == i and e["service"] not in NOT_EPB})
        for e in after_list:
            if any(v < -tol for v in _vals(e)):
                bad.append(("negative auxiliary share", {"id": i, "service": e["service"]}))
        if len(srvs) == 1:
            if any(e["service"] != srvs[0] for e in after_list):
                bad.append(("single-service system: auxiliaries not assigned to its service", {"id": i, "service": srvs[0]}))
            for t in range(n):
                if abs(after[t] - declared[t]) > tol:
                    bad.append(("auxiliary energy not conserved (single-service system)", {"id": i, "step": t}))
                    break
        else:
            # magnitude of the output per service
            q = {}
            for e in raw:
                if e["kind"] == "Out" and e["id"] == i:
                    cur = q.setdefault(e["service"], [Fraction(0)] * n)
                    for t, v in enumerate(_vals(e)[:n]):
                        cur[t] += v
            qt = [sum(abs(q[s][t]) for s in q) for t in range(n)]
            for t in range(n):
                if qt[t] > 0:
                    if abs(after[t] - declared[t]) > tol:
                        bad.append(("auxiliary energy not conserved (multi-service system)",
                                    {"id": i, "step": t, "declared": core.fstr(declared[t]), "after": core.fstr(after[t])}))
                        break
                    for e in after_list:
                        s = e["service"]
                        want = declared[t] * abs(q.get(s, [Fraction(0)] * n)[t]) / qt[t]
                        got = sum((_vals(x)[t] for x in after_list if x["service"] == s), Fraction(0))
                        if abs(got - want) > tol:
                            bad.append(("auxiliary share not proportional to the magnitude of the output energy",
                                        {"id": i, "step": t, "service": s, "got": core.fstr(got), "want": core.fstr(want)}))
                            break
                elif declared[t] > 0 and abs(after[t] - declared[t]) > tol:
                    # the recorded finding: at such a step the auxiliary energy is dropped (every share is 0); any other amount is new
                    bad.append(("KNOWN:zero-output-step" if abs(after[t]) <= tol else "auxiliary energy not conserved at a step without output energy",
                                {"id": i, "step": t, "declared": core.fstr(declared[t]), "after": core.fstr(after[t])}))
                    break
    # other systems' components untouched is covered by oracle_c05 (a); auxiliaries of systems without AUX lines: none appear
    for e in norm:
        if e["kind"] == "Aux" and e["id"] not in aux_ids:
            bad.append(("auxiliary component appeared for a system that declared none", {"id": e["id"]}))
    return bad
