"""Enumerates the panic sites of the library and the program (outside test code): the no-panic argument of C16
covers the listed sites (panic_sites.json); a site that is not listed is an obligation that no longer checks."""
import json
import os
import re

from . import core

PAT = re.compile(r"\.unwrap\(\)|\.expect\(|unreachable!|panic!|\bassert!|assert_eq!|assert_ne!|todo!|unimplemented!"
                 r"|\[[^\[\]]*\.\.[^\[\]]*\]|exit\(|[\w\)]\[[^\[\]]+\]")
SKIP = re.compile(r"^\s*#\[|vec!\[|^\s*(pub\s+)?(const|static)\b")


def scan(repo=None):
    repo = repo or core.REPO
    sites = []
    src = os.path.join(repo, "src")
    for d, _, fs in os.walk(src):
        for f in sorted(fs):
            if not f.endswith(".rs") or f.startswith("test_"):
                continue
            path = os.path.join(d, f)
            rel = os.path.relpath(path, repo)
            lines = open(path, encoding="utf-8").read().split("\n")
            for i, line in enumerate(lines):
                if re.match(r"\s*#\[cfg\(test\)\]", line):
                    break      # test module: to the end of the file
                code = line.split("//")[0]
                if code.strip().startswith(("///", "//!", "*", "/*")):
                    continue
                if SKIP.search(code) and not re.search(r"unwrap|expect|panic|assert|unreachable", code):
                    continue
                if PAT.search(code):
                    sites.append({"file": rel, "code": re.sub(r"\s+", " ", code.strip())})
    return sites


def load_allow():
    p = os.path.join(core.VERIF, "panic_sites.json")
    return json.load(open(p)) if os.path.exists(p) else {"sites": []}


def check():
    """-> (unlisted sites, listed sites no longer present, total)"""
    now = scan()
    allow = load_allow()["sites"]
    key = lambda s: (s["file"], s["code"])
    allowed = {key(s) for s in allow}
    present = {key(s) for s in now}
    return [s for s in now if key(s) not in allowed], [s for s in allow if key(s) not in present], len(now)
