"""The hypothesis `reg_set` of the C13 / C14 theorems, checked on the factor sets the implementation really produces:
the four regulatory locations (wfactors_from_loc), with and without user RED factors, are dumped from /repo's code
and `reg_setb` is evaluated on them in Coq (reg_setb_ok : reg_setb fs = true -> reg_set fs)."""
import re

from . import core

HEADER = core.CASE_HEADER + "From Cteepbd Require Import Proofs.RerFacts.\n"


def stage(R, rng, meta):
    prop = R.prop
    jobs = []
    for loc in core.LOCS:
        jobs.append({"id": "rs_%s" % loc, "factors": {"loc": loc}})
        jobs.append({"id": "rs_%s_u" % loc, "factors": {"loc": loc},
                     "user": {"red1": [rng.randint(0, 1500) / 1000.0, rng.randint(0, 1500) / 1000.0, rng.randint(0, 500) / 1000.0],
                              "red2": [rng.randint(0, 1500) / 1000.0, rng.randint(0, 1500) / 1000.0, rng.randint(0, 500) / 1000.0]}})
    res = core.run_jobs(jobs)
    items = []
    for j, r in zip(jobs, res):
        f = r.get("factors", {})
        if "ok" not in f:
            R.broken.append(("regulatory factor set not produced", {"job": j, "answer": str(f)[:200]}))
            continue
        items.append((j["id"], "", "reg_setb %s" % core.g_factors(f["ok"]["wdata"])))
    out, errs = core.run_coq_cases(prop, items, header=HEADER)
    R.harness_errors.extend(errs)
    okc = 0
    for cid, t in out.items():
        R.evaluations += 1
        if re.search(r"=\s*true", t):
            okc += 1
            R.cases_validated += 1
        else:
            R.broken.append(("the regulatory factor set of the implementation does not satisfy reg_set (hypothesis of the theorems)",
                             {"set": cid, "coq": t[:200]}))
    R.stats["reg_set_hypothesis_checked_on"] = okc
    meta["coverage"]["reg_set_hypothesis"] = "reg_setb = true on the implementation's factor sets of %d (location, user RED) combinations" % okc
