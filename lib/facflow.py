"""Correspondence for factor preparation (wfactors_from_str / wfactors_from_loc) and strip."""
import random
from fractions import Fraction

from . import core, gen, epflow

_TABLES = None


def tables():
    global _TABLES
    if _TABLES is None:
        _TABLES = core.run_jobs([{"id": "tables", "want": ["tables"]}])[0]["tables"]
    return _TABLES


def gen_factor_text(rng):
    """factor files: random subsets of the key space, duplicates, missing grid factors, user export factors"""
    mode = rng.choice(["full", "full", "subset", "subset", "minimal", "dups", "nogrid", "noelec"])
    carriers = list(core.CARRIERS)
    if mode in ("subset", "dups", "nogrid"):
        carriers = rng.sample(core.CARRIERS, rng.randint(1, 8))
        if mode != "nogrid" and "ELECTRICIDAD" not in carriers and rng.random() < 0.8:
            carriers.append("ELECTRICIDAD")
    elif mode == "minimal":
        carriers = ["ELECTRICIDAD"] + rng.sample([c for c in core.CARRIERS if c != "ELECTRICIDAD"], rng.randint(0, 2))
    elif mode == "noelec":
        carriers = [c for c in rng.sample(core.CARRIERS, rng.randint(1, 6)) if c != "ELECTRICIDAD"] or ["GASNATURAL"]
    rows = []
    for cr in carriers:
        if not (mode == "nogrid" and rng.random() < 0.35):
            rows.append((cr, "RED", "SUMINISTRO", "A"))
    for cr in carriers:
        if cr in ("ELECTRICIDAD", "EAMBIENTE", "TERMOSOLAR"):
            if rng.random() < 0.6:
                rows.append((cr, "INSITU", "SUMINISTRO", "A"))
            for dest in ("A_RED", "A_NEPB"):
                for step in ("A", "B"):
                    if rng.random() < 0.4:
                        rows.append((cr, "INSITU", dest, step))
        if cr == "ELECTRICIDAD" and rng.random() < 0.3:
            for dest in ("SUMINISTRO", "A_RED", "A_NEPB"):
                for step in ("A", "B"):
                    if rng.random() < 0.4:
                        rows.append((cr, "COGEN", dest, step))
    if mode == "dups" and rows:
        for _ in range(rng.randint(1, 4)):
            rows.append(rng.choice(rows))
    rng.shuffle(rows)
    lines = ["#META CTE_FUENTE: TEST", "vector, fuente, uso, step, ren, nren, co2"]
    for (cr, src, dest, step) in rows:
        lines.append("%s, %s, %s, %s, %.3f, %.3f, %.3f" % (cr, src, dest, step, rng.randint(0, 2999) / 1000.0,
                                                            rng.randint(0, 2999) / 1000.0, rng.randint(0, 999) / 1000.0))
    return "\n".join(lines) + "\n", mode


def gen_user(rng):
    user = {}
    if rng.random() < 0.4:
        user["red1"] = [rng.randint(0, 1500) / 1000.0, rng.randint(0, 1500) / 1000.0, rng.randint(0, 500) / 1000.0]
    if rng.random() < 0.4:
        user["red2"] = [rng.randint(0, 1500) / 1000.0, rng.randint(0, 1500) / 1000.0, rng.randint(0, 500) / 1000.0]
    return user


class FacCase:
    def __init__(self, cid, spec, user, tags=()):
        self.cid = cid
        self.spec = spec          # {"text": ...} or {"loc": ...}
        self.user = user
        self.tags = set(tags)
        self.raw = None           # raw parsed factors (runner dump)
        self.impl = None          # prepared (runner result)
        self.model = None

    def job(self):
        return {"id": self.cid, "factors": self.spec, "user": self.user, "want": ["prepare_twice"]}

    def raw_job(self):
        s = dict(self.spec)
        s["raw"] = True
        return {"id": self.cid + "_raw", "factors": s}

    def replay(self):
        return {"runner_job": self.job()}


def gen_cases(rng, count, prefix="f"):
    out = []
    for i in range(count):
        if rng.random() < 0.2:
            loc = rng.choice(core.LOCS)
            c = FacCase("%s%d" % (prefix, i), {"loc": loc}, gen_user(rng), tags=["loc", loc])
        else:
            t, mode = gen_factor_text(rng)
            c = FacCase("%s%d" % (prefix, i), {"text": t}, gen_user(rng), tags=["file", mode])
        out.append(c)
    return out


def run_impl(cases):
    jobs = []
    for c in cases:
        jobs.append(c.job())
        if "text" in c.spec:
            jobs.append(c.raw_job())
    res = {r["id"]: r for r in core.run_jobs(jobs)}
    tb = tables()
    for c in cases:
        c.impl = res[c.cid]
        if "text" in c.spec:
            r = res[c.cid + "_raw"].get("factors", {})
            c.raw = r.get("ok")
        else:
            c.raw = tb["locwf"].get(c.spec["loc"])


def g_opt_rnc(v):
    if v is None:
        return "None"
    return "(Some (mkRNC %s %s %s))" % tuple(core.gq(core.f32_round(x)) for x in v)


def g_rnc_exact(v):
    return "(mkRNC %s %s %s)" % tuple(core.gq(Fraction(x)) for x in v)


def model_expr(c, name):
    d = tables()["userwf_default"]   # the implementation's CTE_USERWF, as exact f32 values
    return ("outcome_of (prepare_factors %s %s %s %s %s) dump_factors"
            % (name, g_opt_rnc(c.user.get("red1")), g_opt_rnc(c.user.get("red2")),
               g_rnc_exact(d["red1"]), g_rnc_exact(d["red2"])))


def run_model(cases, prop):
    items = []
    for c in cases:
        if c.raw is None:
            continue
        name = "fac_%s" % c.cid
        defs = "Definition %s := %s." % (name, core.g_factors(c.raw["wdata"]))
        items.append((c.cid, defs, model_expr(c, name)))
    out, errors = core.run_coq_cases(prop, items)
    for c in cases:
        t = out.get(c.cid)
        if t is not None:
            c.model = core.parse_outcome(t)
    return errors


def factors_from_rows(rows):
    fs = {}
    for path, v in rows.items():
        parts = path.split("/")
        f = fs.setdefault(int(parts[0]), {"v": {}})
        if parts[1] == "v":
            f["v"][int(parts[2])] = v
        else:
            f[parts[1]] = int(v)
    out = []
    for i in sorted(fs):
        f = fs[i]
        out.append((core.CARRIERS[f["cr"]], core.SOURCES[f["src"]], core.DESTS[f["dest"]], core.STEPS[f["step"]],
                    f["v"][0], f["v"][1], f["v"][2]))
    return out


def factors_from_dump(d):
    return [(f["carrier"], f["source"], f["dest"], f["step"], Fraction(f["ren"]), Fraction(f["nren"]), Fraction(f["co2"]))
            for f in d["wdata"]]


def compare_case(c):
    r = c.impl.get("factors", {})
    if c.raw is None:
        # the file does not even parse: nothing to compare at this level
        return []
    m = c.model
    if m is None:
        return [{"what": "model produced no result"}]
    if "ok" in r:
        if m[0] != "ok":
            return [{"what": "impl Ok, model %s" % (m[:2],)}]
        a = factors_from_dump(r["ok"])
        b = factors_from_rows(m[1])
        if a != b:
            for i, (x, y) in enumerate(zip(a, b)):
                if x != y:
                    return [{"what": "prepared factor lists differ", "index": i, "impl": str(x), "model": str(y)}]
            return [{"what": "prepared factor lists differ in length", "impl": len(a), "model": len(b)}]
        return []
    if "err" in r:
        if m[0] != "err" or m[1] != r["err"]:
            return [{"what": "impl Err %s, model %s" % (r["err"], m[0] if m[0] == "ok" else m[:2])}]
        return []
    return [{"what": "impl: %s" % str(r)[:200]}]


# ---------------------------------------------------------------- oracles (C07) on implementation outputs

FORCED = {("EAMBIENTE", "INSITU", "SUMINISTRO", "A"), ("EAMBIENTE", "RED", "SUMINISTRO", "A"),
          ("TERMOSOLAR", "INSITU", "SUMINISTRO", "A"), ("TERMOSOLAR", "RED", "SUMINISTRO", "A"),
          ("ELECTRICIDAD", "INSITU", "SUMINISTRO", "A")}
ONE = (Fraction(1), Fraction(0), Fraction(0))


def lookup(fl):
    """first-match lookup table of a factor list [(cr,src,dest,step,ren,nren,co2)]"""
    d = {}
    for f in fl:
        d.setdefault(f[:4], f[4:])
    return d


def oracle_c07(c):
    bad = []
    r = c.impl.get("factors", {})
    if c.raw is None:
        return bad
    raw = factors_from_dump(c.raw)
    lr = lookup(raw)
    carriers = {f[0] for f in raw}
    user = {k: tuple(core.f32_round(x) for x in v) for k, v in c.user.items()}
    tb = tables()["userwf_default"]
    dflt = {"red1": tuple(Fraction(x) for x in tb["red1"]), "red2": tuple(Fraction(x) for x in tb["red2"])}
    # effective input after the user values
    eff = dict(lr)
    if "red1" in user:
        eff[("RED1", "RED", "SUMINISTRO", "A")] = user["red1"]
    if "red2" in user:
        eff[("RED2", "RED", "SUMINISTRO", "A")] = user["red2"]
    # a set is unusable when a carrier it mentions has no grid supply factor (a set that says nothing about
    # electricity is usable: fix 1505fba)
    has_el = "ELECTRICIDAD" in (carriers | {k[0] for k in eff})
    unusable = any((cr, "RED", "SUMINISTRO", "A") not in eff and cr not in ("EAMBIENTE", "TERMOSOLAR") for cr in carriers | {k[0] for k in eff})
    if "ok" not in r:
        if r.get("err") == "MissingFactor" and unusable:
            return bad
        bad.append(("a usable factor set was rejected", {"result": str(r)[:200]}))
        return bad
    if unusable:
        bad.append(("an unusable factor set (carrier without grid supply factor) was accepted", {}))
        return bad
    prep = factors_from_dump(r["ok"])
    lp = lookup(prep)
    for k, v in eff.items():
        if k in FORCED:
            continue
        if lp.get(k) != v:
            bad.append(("a supplied factor was changed or removed", {"key": k, "supplied": str(v), "prepared": str(lp.get(k))}))
    for k in FORCED:
        if k[0] == "ELECTRICIDAD" and not has_el:
            if any(kk[0] == "ELECTRICIDAD" for kk in lp):
                bad.append(("electricity factors were added to a set that says nothing about electricity", {"key": k}))
            continue
        if lp.get(k) != ONE:
            bad.append(("factor fixed by the method is not (1,0,0)", {"key": k, "prepared": str(lp.get(k))}))
    for cr in ("ELECTRICIDAD", "EAMBIENTE", "TERMOSOLAR"):
        if cr == "ELECTRICIDAD" and not has_el:
            continue
        for dest in ("A_RED", "A_NEPB"):
            ka = (cr, "INSITU", dest, "A")
            kb = (cr, "INSITU", dest, "B")
            if ka not in eff and lp.get(ka) != ONE:
                bad.append(("step A export factor does not default to the on-site supply factor", {"key": ka, "prepared": str(lp.get(ka))}))
            if kb not in eff and lp.get(kb) != lp.get((cr, "RED", "SUMINISTRO", "A")):
                bad.append(("step B export factor does not default to the grid supply factor", {"key": kb, "prepared": str(lp.get(kb))}))
    for name, cr in (("red1", "RED1"), ("red2", "RED2")):
        k = (cr, "RED", "SUMINISTRO", "A")
        want = user.get(name) or lr.get(k) or dflt[name]
        if lp.get(k) != want:
            bad.append(("RED1/RED2 precedence (user > file > default) violated", {"key": k, "want": str(want), "got": str(lp.get(k))}))
    # idempotence
    r2 = c.impl.get("prepare_twice", {})
    if "ok" in r2:
        if factors_from_dump(r2["ok"]) != prep:
            bad.append(("preparing a prepared set changes it", {}))
    else:
        bad.append(("preparing a prepared set fails", {"result": str(r2)[:200]}))
    return bad
