"""Driving the cteepbd binary (built from /repo's working tree into /verif/.cache/target)."""
import json
import os
import shutil
import subprocess
import tempfile

from . import core

TMPROOT = os.path.join(core.CACHE, "tmp")


def workdir(tag):
    os.makedirs(TMPROOT, exist_ok=True)
    return tempfile.mkdtemp(prefix=tag + "_", dir=TMPROOT)


def run_cli(args, cwd, timeout=20):
    """-> dict(exit, stdout, stderr, hang)"""
    try:
        p = subprocess.run([core.CLI_BIN] + args, cwd=cwd, capture_output=True, text=True, errors="replace", timeout=timeout)
        return {"exit": p.returncode, "stdout": p.stdout, "stderr": p.stderr, "hang": False}
    except subprocess.TimeoutExpired as e:
        return {"exit": None, "stdout": (e.stdout or b"").decode("utf-8", "replace") if isinstance(e.stdout, bytes) else (e.stdout or ""),
                "stderr": (e.stderr or b"").decode("utf-8", "replace") if isinstance(e.stderr, bytes) else (e.stderr or ""), "hang": True}


def cleanup(d):
    shutil.rmtree(d, ignore_errors=True)
