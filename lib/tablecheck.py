"""The finite tables of the implementation (names, predicates on carriers / services / sources, priorities, defaults)
against the model's: a translator-style tie for the part of the code that is a table.  The implementation's tables are
dumped by the runner from the compiled code on every run; the model's are evaluated in Coq and compared there."""
import re

from . import core, facflow

HEADER = "From Cteepbd Require Import Model.Cli.\n" + core.CASE_HEADER + """Definition b3 (a b c : bool) : list bool := [a; b; c].
Fixpoint strs_eqb (a b : list string) : bool :=
  match a, b with [], [] => true | x :: a', y :: b' => String.eqb x y && strs_eqb a' b' | _, _ => false end.
Fixpoint bools_eqb (a b : list bool) : bool :=
  match a, b with [], [] => true | x :: a', y :: b' => Bool.eqb x y && bools_eqb a' b' | _, _ => false end.
Fixpoint rows_eqb (a b : list (string * list bool * list string)) : bool :=
  match a, b with
  | [], [] => true
  | (n, f, l) :: a', (n', f', l') :: b' => String.eqb n n' && bools_eqb f f' && strs_eqb l l' && rows_eqb a' b'
  | _, _ => false
  end.
"""


def gb(x):
    return "true" if x else "false"


def stage(R, rng, meta):
    tb = facflow.tables()
    rows = lambda items: "[" + "; ".join('("%s", [%s], [%s])' % (n, "; ".join(gb(x) for x in fl), "; ".join('"%s"' % s for s in ls))
                                        for n, fl, ls in items) + "]"
    exp_cr = rows([(c["name"], [c["is_nearby"], c["is_onsite"], c["priorities"]["has"]], c["priorities"]["list"]) for c in tb["carriers"]])
    exp_srv = rows([(s["name"], [s["is_epb"], s["is_nepb"], s["is_cogen"]], []) for s in tb["services"]])
    exp_ps = rows([(p["name"], [], [p["carrier"], p["source"]]) for p in tb["prodsources"]])
    exp_names = rows([("sources", [], [s["name"] for s in tb["sources"]]), ("dests", [], [s["name"] for s in tb["dests"]]),
                      ("steps", [], [s["name"] for s in tb["steps"]]), ("ctypes", [], [s["name"] for s in tb["ctypes"]])])
    items = [
        ("t_carriers", "", "rows_eqb (map (fun c => (carrier_name c, [cr_is_nearby c; cr_is_onsite c; fst (priorities c)], "
                           "map prodsource_name (snd (priorities c)))) all_carriers) %s" % exp_cr),
        ("t_services", "", "rows_eqb (map (fun s => (service_name s, [srv_is_epb s; srv_is_nepb s; srv_is_cogen s], @nil string)) all_services) %s" % exp_srv),
        ("t_prodsources", "", "rows_eqb (map (fun p => (prodsource_name p, @nil bool, [carrier_name (ps_carrier p); source_name (ps_source p)])) all_prodsources) %s" % exp_ps),
        ("t_names", "", 'rows_eqb [("sources", @nil bool, map source_name [RED; INSITU; SRC_COGEN]); ("dests", @nil bool, map dest_name [SUMINISTRO; A_RED; A_NEPB]); '
                        '("steps", @nil bool, map step_name [STEP_A; STEP_B]); ("ctypes", @nil bool, map ctype_name [CONSUMO; PRODUCCION; CT_AUX; SALIDA; DEMANDA])] %s' % exp_names),
        ("t_defaults", "", "qeqb AREAREF_DEFAULT %s && qeqb KEXP_DEFAULT %s" % (core.gq(core.frac_of_json(tb["arearef_default"])),
                                                                                 core.gq(core.frac_of_json(tb["kexp_default"])))),
    ]
    out, errs = core.run_coq_cases(R.prop, items, header=HEADER)
    R.harness_errors.extend(errs)
    okc = 0
    for cid, _, _ in items:
        t = out.get(cid, "")
        R.evaluations += 1
        if re.search(r"=\s*true", t):
            okc += 1
            R.cases_validated += 1
        else:
            R.broken.append(("a finite table of the implementation differs from the model's (%s)" % cid, {"coq": t[:300]}))
    bad = [x["name"] for k in ("carriers", "services", "prodsources", "sources", "dests", "steps", "ctypes") for x in tb[k] if not x.get("parse_ok", True)]
    if bad:
        R.violations.append(("a name does not read back as itself", {"what": "Display / FromStr of an enumeration disagree", "names": bad}))
    R.stats["tables_compared"] = okc
    meta["coverage"]["finite_tables"] = "%d tables of the compiled code equal the model's (names, nearby/on-site, EPB/non-EPB/cogeneration, source of each production, priorities, defaults)" % okc
