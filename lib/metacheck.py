"""Check flow for metamorphic properties (C09, C10, C11): theorems + a small model/implementation
correspondence on the base cases + the relation evaluated on implementation outputs of (base, variant) pairs."""
import copy
import hashlib
import json
from collections import Counter
from fractions import Fraction

from . import core, check, epflow, epcheck, gen, oracles


def clone_building(b):
    nb = gen.Building()
    nb.lines = [(k, dict(kw, values=list(kw["values"]))) for k, kw in b.lines]
    nb.meta = list(b.meta)
    nb.tags = set(b.tags)
    nb.n = b.n
    return nb


def scale_building(b, k):
    nb = clone_building(b)
    for _, kw in nb.lines:
        kw["values"] = [Fraction(v) * k for v in kw["values"]]
    return nb


def run(prop, tier, seed, theorems, make_pairs, level_note, rule, n_pairs=None, n_model=None, want=(), extra_stage=None):
    """make_pairs(rng, count) -> list of (base_case, [(variant_case, relation_fn, label)])
    relation_fn(base_impl_eval, variant_impl_eval, base_case, variant_case) -> list of (what, detail)"""
    R = check.Result(prop, tier, seed)
    rng = check.make_rng(prop, seed)
    n_pairs = n_pairs or (400 if tier == "quick" else 8000)
    n_model = n_model or (24 if tier == "quick" else 200)
    meta = {"coverage": {"checker_cmd": "make -C coq theories/Props/%s.vo && coqc <Print Assumptions> (+ coqchk in thorough tier)" % prop,
                         "trusted_base": epcheck.TRUSTED_BASE, "rule": rule},
            "assumptions": [level_note]}
    try:
        core.build_runner()
    except core.BuildError as e:
        R.harness_errors.append(str(e)[-1500:])
        R.broken.append(("build of /repo's working tree failed", str(e)[-800:]))
        return R.finish(meta)
    ok, rep = check.proof_obligations(prop, theorems)
    R.proof = rep
    if not ok:
        R.broken.append(("proof obligations", {k: rep.get(k) for k in ("failed", "failing_location", "forbidden_vernacular",
                                                                         "make_log_tail", "assumption_check_error", "assumptions")}))
    if tier == "thorough" and ok:
        cok, axioms, tail = check.coqchk(prop)
        meta["coverage"]["coqchk"] = {"ok": cok, "axioms": axioms}
        if not cok or axioms:
            R.broken.append(("coqchk", {"ok": cok, "axioms": axioms, "tail": tail}))
    if extra_stage:
        extra_stage(R, rng, meta)
    pairs = make_pairs(rng, n_pairs)
    allc = []
    for base, variants in pairs:
        allc.append(base)
        allc.extend(v for v, _, _ in variants)
    epflow.run_impl(allc)
    # correspondence on the first n_model base cases (all numeric fields)
    mcases = [b for b, _ in pairs[:n_model]]
    first_pass_errs = epflow.run_model(mcases, prop)     # shards cut short are retried case by case below
    for c in mcases:
        if not epflow.impl_inputs_ok(c):
            continue
        R.evaluations += len(c.evals)
        bad = epflow.compare_case(c)
        if epflow.model_missing(bad):
            epflow.run_model([c], prop)
            bad = epflow.compare_case(c)
        if epflow.model_missing(bad):
            R.harness_errors.append("case %s: the model's evaluation did not complete (time limit); case skipped" % c.cid)
            R.harness_errors.extend(first_pass_errs[:3])
            first_pass_errs = []
            continue
        if bad:
            R.broken.append(("correspondence model/implementation", {"case": c.cid, "first": bad[:3], "replay": c.replay()}))
        else:
            R.cases_validated += 1
    # the relation on implementation outputs
    seen = set()
    labels = Counter()
    for base, variants in pairs:
        if not base.impl or "evals" not in base.impl:
            continue
        for v, rel, label in variants:
            labels[label] += 1
            if not v.impl:
                continue
            bev, vev = base.impl.get("evals"), v.impl.get("evals")
            if bev is None or vev is None:
                # input-level outcome must be the same kind on both sides
                kb = {k: (list(x.keys())[0] if isinstance(x, dict) else x) for k, x in base.impl.items() if k in ("comps", "factors")}
                kv = {k: (list(x.keys())[0] if isinstance(x, dict) else x) for k, x in v.impl.items() if k in ("comps", "factors")}
                if kb != kv and len(R.violations) < 3:
                    R.violations.append(("variant is accepted/rejected differently from the base [%s]" % label,
                                         dict(v.replay(), base=base.replay(), base_outcome=kb, variant_outcome=kv)))
                continue
            for i, (eb, ev) in enumerate(zip(bev, vev)):
                R.evaluations += 1
                nf = [pth for e_ in (eb, ev) if "ok" in e_.get("ep", {}) for pth in core.nonfinite_paths(e_["ep"]["ok"])]
                if nf:
                    hits = [("the evaluation of finite inputs returns a value that is not a finite number", {"paths": nf[:6], "variant": label})]
                else:
                    hits = rel(eb, ev, base, v)
                if not hits and "ok" in eb.get("ep", {}):
                    seen.add(hashlib.sha1((json.dumps(v.job(), sort_keys=True) + str(i)).encode()).hexdigest())
                for what, detail in hits[:1]:
                    if what.startswith("KNOWN:"):
                        cls = what.split(":")[1]
                        kf = [f for f in check.load_known()["findings"] if f.get("property") == prop and f.get("class") == cls]
                        if kf:
                            msg = "%s [%s]" % (kf[0]["what"], kf[0]["id"])
                            if msg not in R.known_hits:
                                R.known_hits.append(msg)
                            R.stats["known_" + cls] = R.stats.get("known_" + cls, 0) + 1
                            continue
                        what = what.split(":", 2)[2]
                    if len(R.violations) < 3:
                        payload = v.replay()
                        payload.update({"what": what + " [%s]" % label, "detail": detail, "base": base.replay(), "eval_index": i})
                        R.violations.append((what + " [%s]" % label, payload))
    R.distinct_nontrivial = len(seen)
    if not labels or R.evaluations == 0:
        R.harness_errors.append("no (base, variant) pair was evaluated")
    R.stats["pairs"] = {"bases": len(pairs), "variants": dict(labels)}
    if pairs:
        b0, v0 = pairs[0]
        R.samples.append({"base_components": b0.comps_spec.get("text", "")[:800],
                          "variant_components": v0[0][0].comps_spec.get("text", "")[:800] if v0 else None, "evals": b0.evals})
    return R.finish(meta)


import re
PER_STEP = re.compile(r"/(t|[a-z_]*_t)(/[A-Za-z0-9_]+)*/\d+$|/f_match/")


def is_per_step(path):
    return bool(PER_STEP.search(path))


def relate_exact():
    """relation: the very same evaluation again (another hash-map order) gives bit-identical results"""
    def rel(eb, ev, base, var):
        a, b = eb.get("ep", {}), ev.get("ep", {})
        if json.dumps(a, sort_keys=True) != json.dumps(b, sort_keys=True):
            fa, fb = core.flatten(a), core.flatten(b)
            d = [k for k in sorted(set(fa) | set(fb)) if fa.get(k) != fb.get(k)]
            k = d[0] if d else "?"
            return [("repeated evaluation gives a different result",
                     {"path": k, "first": core.fstr(fa.get(k)), "second": core.fstr(fb.get(k)), "paths_differing": len(d)})]
        if json.dumps(eb.get("acs"), sort_keys=True) != json.dumps(ev.get("acs"), sort_keys=True):
            return [("repeated evaluation gives a different DHW fraction", {"first": str(eb.get("acs")), "second": str(ev.get("acs"))})]
        return []
    return rel


def relate_scaled(factor_energy, per_step_map=None):
    """relation: every energy field of the variant = factor * base field; ratios equal; per-step vectors mapped by per_step_map"""
    def rel(eb, ev, base, var):
        a, b = eb.get("ep", {}), ev.get("ep", {})
        if "ok" not in a or "ok" not in b:
            ka = a.get("err") or ("panic" if "panic" in a else "ok" if "ok" in a else "?")
            kb = b.get("err") or ("panic" if "panic" in b else "ok" if "ok" in b else "?")
            return [] if ka == kb else [("variant evaluates to a different outcome", {"base": ka, "variant": kb})]
        fa, fb = oracles.flat_ep(a["ok"]), oracles.flat_ep(b["ok"])
        sc = max(oracles.ep_scale(fa) * abs(factor_energy), oracles.ep_scale(fb))
        out = []
        # an entry absent on one side (maps that only record non-zero values) counts as zero
        for k in sorted(set(fa) | set(fb)):
            if is_per_step(k) or k in ("k_exp", "arearef"):
                continue
            x = fa.get(k, Fraction(0))
            y = fb.get(k, Fraction(0))
            ratio = k.startswith("rer")
            want = x if ratio else x * factor_energy
            tol = oracles.tol_for(k, fb, sc)
            if abs(y - want) > tol:
                out.append(("annual result changes" if factor_energy == 1 else "result does not scale with the energy",
                            {"path": k, "base": core.fstr(x), "variant": core.fstr(y), "expected": core.fstr(want)}))
                break
        if not out and per_step_map:
            out.extend(per_step_map(a["ok"], b["ok"], sc, var))
        # DHW fraction
        if not out and ("acs" in eb or "acs" in ev):
            xa, xb = eb.get("acs", {}), ev.get("acs", {})
            if ("ok" in xa) != ("ok" in xb) or ("err" in xa and xa.get("err") != xb.get("err")):
                out.append(("DHW renewable fraction: different outcome", {"base": str(xa)[:120], "variant": str(xb)[:120]}))
            elif "ok" in xa and not isinstance(xa["ok"], str) and not isinstance(xb["ok"], str) and abs(Fraction(xa["ok"]) - Fraction(xb["ok"])) > Fraction(1, 1000):
                out.append(("DHW renewable fraction changes", {"base": xa["ok"], "variant": xb["ok"]}))
        return out
    return rel
