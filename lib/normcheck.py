"""Check flow for the properties decided on Components::normalize (C05, C06)."""
import hashlib
import json
from collections import Counter

from . import core, check, normflow, epcheck


def run(prop, tier, seed, theorems, oracle, nontrivial_tag, level_note, known_map=None, extra_stage=None):
    R = check.Result(prop, tier, seed)
    rng = check.make_rng(prop, seed)
    n_model = 120 if tier == "quick" else 1500
    n_oracle = 3000 if tier == "quick" else 40000
    meta = {"coverage": {"checker_cmd": "make -C coq theories/Props/%s.vo && coqc <Print Assumptions> (+ coqchk in thorough tier)" % prop,
                         "trusted_base": epcheck.TRUSTED_BASE,
                         "rule": "structured random un-normalised component sets (lib/normflow.py: several systems, partial/"
                                 "surplus/missing ambient and solar production, single- and multi-service auxiliaries, heating "
                                 "and cooling outputs, zero-output steps, auxiliaries as only electricity) handed to "
                                 "Components::normalize through serde JSON; non-trivial = %s; distinct by SHA1 of the job" % nontrivial_tag},
            "assumptions": [level_note]}
    try:
        core.build_runner()
    except core.BuildError as e:
        R.harness_errors.append(str(e)[-1500:])
        R.broken.append(("build of /repo's working tree failed", str(e)[-800:]))
        return R.finish(meta)
    ok, rep = check.proof_obligations(prop, theorems)
    R.proof = rep
    if not ok:
        R.broken.append(("proof obligations", {k: rep.get(k) for k in ("failed", "failing_location", "forbidden_vernacular",
                                                                         "make_log_tail", "assumption_check_error", "assumptions")}))
    if tier == "thorough" and ok:
        cok, axioms, tail = check.coqchk(prop)
        meta["coverage"]["coqchk"] = {"ok": cok, "axioms": axioms}
        if not cok or axioms:
            R.broken.append(("coqchk", {"ok": cok, "axioms": axioms, "tail": tail}))
    cases = normflow.gen_cases(rng, n_model)
    normflow.run_impl(cases)
    errs = normflow.run_model(cases, prop)
    R.harness_errors.extend(errs)
    tags = Counter()
    disagree = []
    for c in cases:
        R.evaluations += 1
        bad = normflow.compare_case_full(c)
        if bad:
            disagree.append((c, bad))
        else:
            R.cases_validated += 1
        for t in c.tags:
            tags[t] += 1
        tags["impl_" + ("ok" if "ok" in c.impl.get("comps", {}) else c.impl.get("comps", {}).get("err", "other"))] += 1
    R.stats["model_vs_impl"] = {"cases": len(cases), "agree": R.cases_validated, "disagree": len(disagree), "tags": dict(tags)}
    for c, bad in disagree[:10]:
        R.broken.append(("correspondence model/implementation (normalize)", {"case": c.cid, "first": bad[:3], "replay": c.replay()}))
    ocases = cases + normflow.gen_cases(rng, n_oracle, prefix="o")
    normflow.run_impl(ocases[len(cases):])
    seen = set()
    otags = Counter()
    for c in ocases:
        R.evaluations += 1
        for t in c.tags:
            otags[t] += 1
        if nontrivial_tag_hit(c, prop):
            seen.add(hashlib.sha1(json.dumps(c.cj, sort_keys=True).encode()).hexdigest())
        for what, detail in oracle(c):
            if what.startswith("KNOWN:"):
                kid = (known_map or {}).get(what[6:])
                if kid:
                    if kid not in R.known_hits:
                        R.known_hits.append(kid)
                    continue
            if len(R.violations) < 3:
                payload = c.replay()
                payload.update({"what": what, "detail": detail})
                R.violations.append((what, payload))
            break
    R.distinct_nontrivial = len(seen)
    R.stats["oracle_stream"] = {"cases": len(ocases), "tags": dict(otags)}
    c0 = cases[0]
    R.samples.append({"components_json": c0.cj})
    if extra_stage:
        extra_stage(R, rng, meta)
    return R.finish(meta)


def nontrivial_tag_hit(c, prop):
    raw = c.cj["data"]
    kinds = [list(x.keys())[0] for x in raw]
    if prop == "C05":
        return any(list(x.values())[0].get("carrier") in ("EAMBIENTE", "TERMOSOLAR") for x in raw if "Used" in x)
    return "Aux" in kinds
