"""Correspondence for energy_performance: implementation (runner) vs model (coqc) on the same inputs."""
import random
from fractions import Fraction

from . import core, gen
from .core import log


class EpCase:
    def __init__(self, cid, comps_spec, factors_spec, user, evals, strip=False, tags=(), want=()):
        self.cid = cid
        self.comps_spec = comps_spec      # {"text": ...} or {"json": ..., "normalize": bool}
        self.factors_spec = factors_spec  # {"loc": ...} | {"text": ...}
        self.user = user or {}
        self.evals = evals                # list of (k, area, lm)
        self.strip = strip
        self.tags = set(tags)
        self.want = list(want)
        self.impl = None                  # runner result
        self.model = {}                   # eval index -> parsed outcome
        self.model_acs = {}               # eval index -> parsed outcome of the DHW fraction

    def job(self):
        j = {"id": self.cid, "comps": self.comps_spec, "factors": self.factors_spec, "user": self.user,
             "evals": [[k, a, lm] for (k, a, lm) in self.evals], "strip": self.strip, "want": self.want}
        return j

    def replay(self):
        return {"runner_job": self.job(),
                "replay_cmd": "echo '<runner_job as one JSON line>' | %s" % core.RUNNER_BIN}


def tiny_use(rng, b, p=0.2):
    """now and then the EPB use of one carrier is made tiny (a few millionths of a kWh in the year) while its production, if any,
    keeps its size: no result may depend on comparing an energy with an absolute threshold (fix c3bd83b; seeded changes S16, S29,
    S36, S43 all copied that idiom)"""
    if rng.random() >= p:
        return
    crs = sorted({kw["carrier"] for k, kw in b.lines if k == "CONSUMO" and kw.get("service") not in ("NEPB", "COGEN")})
    if not crs:
        return
    cr = rng.choice(crs)
    f = Fraction(1, 2 ** rng.choice([20, 24, 28]))
    for k, kw in b.lines:
        if k == "CONSUMO" and kw["carrier"] == cr and kw.get("service") not in ("NEPB", "COGEN"):
            kw["values"] = [Fraction(v) * f for v in kw["values"]]
    b.tags.add("tiny_use_carrier")


def gen_cases(rng, count, force=None, multi_eval=False, prefix="c", tweak=None):
    cases = []
    for i in range(count):
        fspec, user = gen.gen_factors_spec(rng)
        if multi_eval == "lm":
            k, area, _ = gen.gen_params(rng)
            evals = [(k, area, False), (k, area, True)]
        elif multi_eval == "area":
            k, area, lm = gen.gen_params(rng)
            a2 = rng.choice([0.001953125, 3.0, 64.0, 250.0, 12345.0])
            evals = [(k, area, lm), (k, a2, lm)]
        elif multi_eval == "k":
            k, area, lm = gen.gen_params(rng)
            kk = rng.choice([0.25, 0.5, 0.75, rng.randint(1, 63) / 64.0])
            evals = [(0.0, area, lm), (1.0, area, lm), (kk, area, lm)]
        elif multi_eval:
            area = gen.gen_params(rng)[1]
            evals = [(0.0, area, False), (0.0, area, True), (1.0, area, False), (gen.gen_params(rng)[0], area, True)]
        else:
            evals = [gen.gen_params(rng)]
        # with load matching, production is a small rational multiple of use so that exact
        # rational results keep small denominators (evaluation cost), except for short series
        b = gen.gen_building(rng, force=force, ratio_only=any(lm for (_, _, lm) in evals))
        # (not for long series with load matching: the exact rational model then sums a dozen unrelated fractions per carrier and its
        # evaluation time explodes; short series exercise the same code)
        if tweak is not None and not (any(lm for (_, _, lm) in evals) and b.n > 3):
            tweak(rng, b)
        text = b.text()
        # the parameters an evaluation is given are the ones it uses: a third of the files carry CTE_KEXP / CTE_AREAREF metadata
        # that say something else (the program reconciles them before calling the library; the library does not look at them).
        # Drawn from a generator of its own so that the stream of buildings is the one it was before.
        mrng = random.Random("%s-%s-%d-meta" % (prefix, i, len(text)))
        if mrng.random() < 0.33:
            text = "#META CTE_KEXP: %s\n#META CTE_AREAREF: %s\n" % (mrng.choice(["1.0", "0.0", "0.5"]), mrng.choice(["100.0", "1.0", "37.5"])) + text
            b.tags.add("metadata_parameters_differ")
        c = EpCase("%s%d" % (prefix, i), {"text": text}, fspec, user, evals, strip=rng.random() < 0.3,
                   tags=b.tags)
        c.n = b.n
        cases.append(c)
    return cases


def run_impl(cases):
    res = core.run_jobs([c.job() for c in cases])
    for c, r in zip(cases, res):
        c.impl = r
    return cases


def impl_inputs_ok(c):
    r = c.impl
    return (r and isinstance(r.get("comps"), dict) and "ok" in r["comps"]
            and isinstance(r.get("factors"), dict) and "ok" in r["factors"]
            and ("stripped" not in r or "ok" in r["stripped"])
            and core.finite_components(r["comps"]["ok"]))


def model_items(c, with_comment=None):
    if with_comment is None:
        with_comment = "acs" in c.want
    """Gallina definitions + one expression per evaluation"""
    r = c.impl
    comps = r["comps"]["ok"]
    fdump = r["stripped"]["ok"] if "stripped" in r else r["factors"]["ok"]
    name = "case_%s" % c.cid
    defs = "Definition %s_c := %s.\nDefinition %s_f := %s.\n" % (
        name, core.g_components(comps, with_comment), name, core.g_factors(fdump["wdata"]))
    items = []
    for i, (k, a, lm) in enumerate(c.evals):
        kq = core.gq(core.f32_round(k))
        aq = core.gq(core.f32_round(a))
        expr = "outcome_of (energy_performance %s_c %s_f %s %s %s) dump_ep" % (
            name, name, kq, aq, "true" if lm else "false")
        items.append(("%s.%d" % (c.cid, i), defs if i == 0 else "", expr))
        if "acs" in c.want:
            items.append(("%s.acs%d" % (c.cid, i), "", "acs_outcome (energy_performance %s_c %s_f %s %s %s)" % (
                name, name, kq, aq, "true" if lm else "false")))
    return items


def run_model(cases, prop):
    items = []
    for c in cases:
        if impl_inputs_ok(c):
            items.extend(model_items(c))
    out, errors = core.run_coq_cases(prop, items)
    for c in cases:
        for i in range(len(c.evals)):
            t = out.get("%s.%d" % (c.cid, i))
            if t is not None:
                c.model[i] = core.parse_outcome(t)
            t = out.get("%s.acs%d" % (c.cid, i))
            if t is not None:
                c.model_acs[i] = core.parse_outcome(t)
    return errors


MODEL_MISSING = "model did not produce a result"


def model_missing(bad):
    """the only thing wrong with the case is that the model's evaluation did not complete (time limit): a harness matter"""
    return bool(bad) and all(b.get("what") == MODEL_MISSING for b in bad)


def compare_case(c, select=None):
    """-> list of disagreement records for this case (all evals)"""
    bad = []
    if not impl_inputs_ok(c):
        return bad
    evs = c.impl.get("evals", [])
    for i, ev in enumerate(evs):
        m = c.model.get(i)
        if m is None:
            bad.append({"eval": i, "what": MODEL_MISSING})
            continue
        iep = ev.get("ep", {})
        if "ok" in iep:
            if m[0] != "ok":
                bad.append({"eval": i, "what": "impl Ok, model %s" % (m,)})
                continue
            d = core.compare_ep(iep["ok"], m[1], select)
            for (k, a, b) in d[:8]:
                bad.append({"eval": i, "path": k, "impl": core.fstr(a), "model": core.fstr(b)})
        elif "err" in iep:
            if m[0] != "err" or m[1] != iep["err"]:
                bad.append({"eval": i, "what": "impl Err %s, model %s" % (iep["err"], m[:2] if m[0] != "ok" else "Ok")})
        elif "panic" in iep:
            bad.append({"eval": i, "what": "impl PANIC %s" % iep["panic"]})
    return bad
