"""Generic check flow: proof obligations + correspondence + oracle search + evidence."""
import json
import os
import random
import re
import subprocess
import time
from fractions import Fraction

from . import core
from .core import log

FORBIDDEN = re.compile(r"\b(Admitted|admit|Axiom|Axioms|Parameter|Parameters|Conjecture|Admit Obligations)\b"
                       r"|Unset Guard|bypass_check|type-in-type|impredicative-set|Unset Universe|Unset Positivity")

# axioms of Coq's standard library that the development is allowed to depend on (DESIGN.md §8)
ALLOWED_AXIOMS = set()


def load_known():
    p = os.path.join(core.VERIF, "known_findings.json")
    if os.path.exists(p):
        return json.load(open(p))
    return {"findings": [], "fixed": []}


def grep_forbidden():
    """scan the development (not generated case files) for forbidden vernacular"""
    hits = []
    root = os.path.join(core.COQDIR, "theories")
    for d, _, fs in os.walk(root):
        for f in fs:
            if not f.endswith(".v") or f.startswith("cases_"):
                continue
            path = os.path.join(d, f)
            txt = open(path).read()
            # strip comments (non-nested approximation is enough: forbidden words in comments are reported too
            # unless inside (* ... *) on the same construct)
            nocom = re.sub(r"\(\*.*?\*\)", "", txt, flags=re.S)
            for m in FORBIDDEN.finditer(nocom):
                hits.append("%s: %s" % (os.path.relpath(path, core.VERIF), m.group(0)))
            # Variable / Hypothesis outside a section
            depth = 0
            for line in nocom.splitlines():
                if re.match(r"\s*Section\b", line):
                    depth += 1
                elif re.match(r"\s*End\b", line) and depth > 0:
                    depth -= 1
                elif depth == 0 and re.match(r"\s*(Variable|Variables|Hypothesis|Hypotheses|Context)\b", line):
                    hits.append("%s: %s outside section" % (os.path.relpath(path, core.VERIF), line.strip()))
    return hits


def proof_obligations(prop, theorems, extra_targets=()):
    """Build Props/<prop>.vo (full .vo) and re-check the assumptions of every property theorem.
    Returns (ok, report dict)."""
    t0 = time.time()
    rep = {"theorems": list(theorems), "discharged": [], "failed": [], "assumptions": {}}
    targets = ["theories/Props/%s.vo" % prop] + list(extra_targets)
    rc, out = core.coq_make(targets)
    rep["make_rc"] = rc
    if rc != 0:
        rep["make_log_tail"] = out[-3000:]
        rep["failed"] = list(theorems)
        # try to name the failing file/lemma
        m = re.search(r'File "([^"]+)", line (\d+)', out)
        if m:
            rep["failing_location"] = "%s:%s" % (m.group(1), m.group(2))
        rep["wall_s"] = time.time() - t0
        return False, rep
    forb = grep_forbidden()
    rep["forbidden_vernacular"] = forb
    # Print Assumptions for every theorem, in a scratch file
    os.makedirs(core.GEN, exist_ok=True)
    path = os.path.join(core.GEN, "cases_assume_%s_%d.v" % (prop, os.getpid()))
    with open(path, "w") as f:
        f.write("From Cteepbd Require Import Props.%s.\n" % prop)
        for th in theorems:
            f.write('Goal True. idtac "@@TH %s". exact I. Qed.\nPrint Assumptions %s.\n' % (th, th))
    p = subprocess.run(["timeout", "600", "coqc", "-noglob", "-Q", os.path.join(core.COQDIR, "theories"), "Cteepbd", path],
                       capture_output=True, text=True, cwd=core.GEN)
    base = os.path.basename(path)[:-2]
    for fn in os.listdir(core.GEN):
        if fn.startswith(base) or fn.startswith("." + base):
            try:
                os.remove(os.path.join(core.GEN, fn))
            except OSError:
                pass
    if p.returncode != 0:
        rep["failed"] = list(theorems)
        rep["assumption_check_error"] = (p.stdout + p.stderr)[-2000:]
        rep["wall_s"] = time.time() - t0
        return False, rep
    parts = re.split(r"@@TH (\S+)", p.stdout)
    for i in range(1, len(parts), 2):
        th, txt = parts[i], parts[i + 1]
        if "Closed under the global context" in txt:
            rep["assumptions"][th] = []
            rep["discharged"].append(th)
        else:
            axs = re.findall(r"^(\S+)\s*:", txt, flags=re.M)
            rep["assumptions"][th] = axs
            if all(a in ALLOWED_AXIOMS for a in axs) and axs:
                rep["discharged"].append(th)
            else:
                rep["failed"].append(th)
    for th in theorems:
        if th not in rep["discharged"] and th not in rep["failed"]:
            rep["failed"].append(th)
    ok = not rep["failed"] and not forb
    rep["wall_s"] = time.time() - t0
    return ok, rep


def coqchk(prop):
    """independent re-check of the property's compiled file (thorough tier)"""
    p = subprocess.run(["timeout", "1500", "coqchk", "-silent", "-o", "-Q", os.path.join(core.COQDIR, "theories"),
                        "Cteepbd", "Cteepbd.Props.%s" % prop], capture_output=True, text=True, cwd=core.COQDIR)
    txt = p.stdout + p.stderr
    axioms = []
    m = re.search(r"\* Axioms:(.*?)(\n\s*\n|\* |$)", txt, flags=re.S)
    if m:
        axioms = [a.strip() for a in m.group(1).strip().splitlines() if a.strip() and a.strip() != "<none>"]
    return p.returncode == 0, axioms, txt[-1500:]


class Result:
    """accumulates what a check run found"""

    def __init__(self, prop, tier, seed):
        self.prop = prop
        self.tier = tier
        self.seed = seed
        self.t0 = time.time()
        self.violations = []          # (what, replay payload) with a concrete failing input
        self.broken = []              # (what, details) obligations / correspondences that no longer check
        self.known_hits = []          # strings for KNOWN-FINDING lines
        self.stats = {}
        self.samples = []
        self.evaluations = 0
        self.cases_validated = 0
        self.distinct_nontrivial = 0
        self.notes = []
        self.proof = None
        self.harness_errors = []

    def finish(self, meta):
        """print verdict lines, write evidence, return exit code"""
        prop = self.prop
        known = load_known()
        rc = 0
        for s in self.known_hits:
            print("KNOWN-FINDING: property=%s %s" % (prop, s))
        vio_records = []
        if self.violations:
            rc = 1
            # one VIOLATION line per distinct kind (first replay of each)
            seen = set()
            for what, payload in self.violations:
                if what in seen:
                    continue
                seen.add(what)
                payload = dict(payload)
                payload.setdefault("property", prop)
                payload.setdefault("what", what)
                path = core.write_replay(prop, payload)
                print("VIOLATION property=%s replay=%s" % (prop, path))
                vio_records.append({"what": what, "replay": path})
        elif self.broken:
            rc = 1
            payload = {"property": prop, "no_failing_input_found": True,
                       "no_longer_checks": [{"what": w, "details": d} for w, d in self.broken[:20]]}
            path = core.write_replay(prop, payload)
            print("VIOLATION property=%s replay=%s no-failing-input-found" % (prop, path))
            vio_records.append({"what": "broken obligation/correspondence", "replay": path,
                                "no_failing_input_found": True})
        if self.harness_errors and rc == 0:
            # the machinery itself failed: never report success
            rc = 2
            for e in self.harness_errors[:5]:
                log("HARNESS ERROR:", e)
        cov = {
            "evaluations": self.evaluations,
            "traces_validated_against_impl": self.cases_validated,
            "distinct_nontrivial": self.distinct_nontrivial,
            "samples": self.samples[:5] if self.samples else ["(no correspondence case was run)"],
            "distribution": self.stats,
            "exhaustive": False,
        }
        if self.proof is not None:
            cov["obligations"] = len(self.proof.get("theorems", []))
            cov["discharged"] = len(self.proof.get("discharged", []))
            cov["theorems"] = self.proof.get("theorems", [])
            cov["theorems_discharged"] = self.proof.get("discharged", [])
            cov["print_assumptions"] = self.proof.get("assumptions", {})
            cov["proof_wall_s"] = round(self.proof.get("wall_s", 0), 2)
        cov.update(meta.get("coverage", {}))
        try:
            seed_int = int(self.seed)
        except (TypeError, ValueError):
            seed_int = 0
        ev = {
            "property_id": prop,
            "level": "proof",
            "tier": self.tier,
            "seed": seed_int,
            "wall_s": round(time.time() - self.t0, 2),
            "violations": len(vio_records),
            "violation_records": vio_records,
            "known_findings_reproduced": self.known_hits,
            "broken": [{"what": w, "details": d} for w, d in self.broken[:20]],
            "harness_errors": self.harness_errors[:20],
            "coverage": cov,
            "assumptions": meta.get("assumptions", []),
            "notes": self.notes,
        }
        core.write_json(os.path.join(core.EVIDENCE, "%s.json" % prop), ev)
        return rc


def make_rng(prop, seed):
    return random.Random("%s-%s" % (prop, seed))
