"""Correspondence of the text-format model (coq/theories/Model/Parse.v) with the implementation's FromStr / Display,
and generators of valid, corrupted and token-soup inputs."""
import re
from fractions import Fraction

from . import core, gen, textflow as tf

HEADER = """From Coq Require Import String.
From Cteepbd Require Import Model.All Model.Text Model.Parse Model.ParseCheck.
Open Scope string_scope. Open Scope Z_scope. Open Scope list_scope.
Set Printing Depth 1000000.
Set Printing Width 200.
"""

VOCAB = ["CONSUMO", "PRODUCCION", "AUX", "SALIDA", "DEMANDA", "ACS", "CAL", "REF", "VEN", "ILU", "NEPB", "COGEN", "ELECTRICIDAD",
         "EAMBIENTE", "TERMOSOLAR", "GASNATURAL", "BIOMASA", "BIOMASADENSIFICADA", "RED1", "RED2", "EL_INSITU", "EL_COGEN", "RED",
         "INSITU", "SUMINISTRO", "A_RED", "A_NEPB", "A", "B", "1", "0", "-3", "+7", "12.5", "1e3", "-0", "inf", "-inf", "NaN", "nan",
         "Infinity", "+infinity", "-nan", "1e39", "3.5e38", "1e-50", "2147483647", "2147483648", "-2147483648", "-2147483649",
         "0x10", "1_0", "１２", "", " ", "\t", " ", " ", "\u0085", "#", ",", ":", "#META", "#CTE_", "vector,", "é", "﻿",
         "1.", ".5", ".", "e5", "1e", "1e+", "+", "-", "٣", "CONSUMO ", "consumo", "1,5", "--1", "1e400", "1e-400", "0.1e1", "00012",
         "1.17549435e-38", "16777217", "0.1", "0.30000001", "\r", "\x0b", "\x0c", "\x1c", "​", " ", "日本", "CTE_AREAREF"]


def u8(s):
    return "(u8 %s)" % tf.g_bytes(s)


def g_pres_energy(r):
    """expected outcome (Gallina term of type pres Energy) from the runner's answer"""
    if "panic" in r:
        return "PPanic"
    if "err" in r:
        return "(PErr %s)" % r["err"]
    e = r["ok"]
    if any(isinstance(v, str) for v in e["values"]):
        return "PNonFinite"
    vals = core.gql([Fraction(v) for v in e["values"]])
    cm = u8(e.get("comment", ""))
    k = e["kind"]
    if k == "Used":
        t = "EUsed (%d) %s %s %s %s" % (e["id"], e["carrier"], e["service"], vals, cm)
    elif k == "Prod":
        t = "EProd (%d) %s %s %s" % (e["id"], core.COQ_PRODSOURCE[e["source"]], vals, cm)
    elif k == "Aux":
        t = "EAux (%d) %s %s %s" % (e["id"], e["service"], vals, cm)
    else:
        t = "EOut (%d) %s %s %s" % (e["id"], e["service"], vals, cm)
    return "(POk (%s))" % t


def g_pres_need(r):
    if "panic" in r:
        return "PPanic"
    if "err" in r:
        return "(PErr %s)" % r["err"]
    n = r["ok"]
    if any(isinstance(v, str) for v in n["values"]):
        return "PNonFinite"
    return "(POk (%s, %s))" % (n["service"], core.gql([Fraction(v) for v in n["values"]]))


def g_pres_meta(r):
    if "panic" in r:
        return "PPanic"
    if "err" in r:
        return "(PErr %s)" % r["err"]
    return "(POk (mkMeta %s %s))" % (u8(r["ok"][0]), u8(r["ok"][1]))


def g_factor_u8(x):
    return "mkFactor %s %s %s %s (mkRNC %s %s %s) %s" % (
        x["carrier"], core.COQ_SOURCE[x["source"]], x["dest"], core.COQ_STEP[x["step"]],
        core.gq(Fraction(x["ren"])), core.gq(Fraction(x["nren"])), core.gq(Fraction(x["co2"])), u8(x.get("comment", "")))


def g_pres_factor(r):
    if "panic" in r:
        return "PPanic"
    if "err" in r:
        return "(PErr %s)" % r["err"]
    x = r["ok"]
    if any(isinstance(x[k], str) for k in ("ren", "nren", "co2")):
        return "PNonFinite"
    return "(POk (%s))" % g_factor_u8(x)


def g_energy_u8(e):
    vals = core.gql([Fraction(v) for v in e["values"]])
    cm = u8(e.get("comment", ""))
    k = e["kind"]
    if k == "Used":
        return "EUsed (%d) %s %s %s %s" % (e["id"], e["carrier"], e["service"], vals, cm)
    if k == "Prod":
        return "EProd (%d) %s %s %s" % (e["id"], core.COQ_PRODSOURCE[e["source"]], vals, cm)
    if k == "Aux":
        return "EAux (%d) %s %s %s" % (e["id"], e["service"], vals, cm)
    return "EOut (%d) %s %s %s" % (e["id"], e["service"], vals, cm)


def g_meta_u8(ml):
    return "([" + "; ".join("mkMeta %s %s" % (u8(k), u8(v)) for k, v in ml) + "] : list Meta)"


def g_components_u8(c):
    data = "([" + ";\n    ".join(g_energy_u8(e) for e in c["data"]) + "] : list Energy)"
    return "(mkComponents %s %s %s)" % (g_meta_u8(c["meta"]), data, core.g_needs(c["needs"]))


def g_factors_u8(f):
    return "(mkFactors %s ([%s] : list Factor))" % (g_meta_u8(f["wmeta"]), ";\n ".join(g_factor_u8(x) for x in f["wdata"]))


def components_finite(c):
    return core.finite_components(c)


def factors_finite(f):
    return all(not isinstance(x[k], str) for x in f["wdata"] for k in ("ren", "nren", "co2"))


def g_pres_components(r):
    if "panic" in r:
        return "PPanic"
    if "err" in r:
        return "(PErr %s)" % r["err"]
    if not components_finite(r["ok"]):
        return "PNonFinite"
    return "(POk %s)" % g_components_u8(r["ok"])


def g_pres_factors(r):
    if "panic" in r:
        return "PPanic"
    if "err" in r:
        return "(PErr %s)" % r["err"]
    if not factors_finite(r["ok"]):
        return "PNonFinite"
    return "(POk %s)" % g_factors_u8(r["ok"])


VERDICT_RE = re.compile(r"=\s*\(\s*(true|false)\s*,\s*(\d+)(?:%N)?\s*\)")
CLASSES = {0: "ok", 1: "ParseError", 2: "WrongInput", 3: "MissingFactor", 4: "non-finite value", 5: "PANIC"}


def parse_verdict(text):
    m = VERDICT_RE.search(text or "")
    if not m:
        return None
    return (m.group(1) == "true", CLASSES.get(int(m.group(2)), "?"))


def impl_class(r):
    if "panic" in r:
        return "PANIC"
    if "err" in r:
        return r["err"]
    return "ok"


# --------------------------------------------------------------------------- generators

def valid_lines(rng):
    """(kind, line) for every record type, from a structured building and a factor set"""
    b = gen.gen_building(rng, n=rng.choice([1, 2, 3, 12]), allow_aux=True, allow_multi_aux=True, allow_out=True)
    out = []
    for kind, kw in b.lines:
        if rng.random() < 0.4:
            kw["comment"] = tf.special_text(rng, 3).replace("#", "").replace("\n", " ")
        nb = gen.Building()
        nb.lines = [(kind, kw)]
        line = nb.text().strip("\n")
        if rng.random() < 0.25 and kw.get("id") is not None and kind != "SALIDA":
            line = re.sub(r"^-?\d+,\s*", "", line)      # legacy line without id
        out.append(({"CONSUMO": "used", "PRODUCCION": "prod", "AUX": "aux", "SALIDA": "out", "DEMANDA": "need"}[kind], line))
    ft = gen.gen_user_factors_text(rng)
    for l in ft.split("\n"):
        if l.strip() and not l.startswith("#"):
            out.append(("factor", l))
    for _ in range(2):
        out.append(("meta", "%s %s: %s" % (rng.choice(["#META", "#CTE_", "#META  ", "#METAx"]), rng.choice(["CTE_AREAREF", "Area_ref", "kexp", "Localizacion", "a b", "ñ", ""]),
                                         tf.special_text(rng, 2).replace("\n", " "))))
    return out


def corrupt_line(rng, line):
    op = rng.choice(["drop", "dup", "replace", "truncate", "swap", "insert", "ws", "hash", "case", "none"])
    toks = line.split(",")
    if op == "drop" and len(toks) > 1:
        del toks[rng.randrange(len(toks))]
    elif op == "dup":
        i = rng.randrange(len(toks))
        toks.insert(i, toks[i])
    elif op == "replace":
        toks[rng.randrange(len(toks))] = rng.choice(VOCAB)
    elif op == "truncate":
        return line[:rng.randrange(len(line) + 1)]
    elif op == "swap" and len(toks) > 1:
        i, j = rng.randrange(len(toks)), rng.randrange(len(toks))
        toks[i], toks[j] = toks[j], toks[i]
    elif op == "insert":
        toks.insert(rng.randrange(len(toks) + 1), rng.choice(VOCAB))
    elif op == "ws":
        i = rng.randrange(len(toks))
        toks[i] = rng.choice([" ", "\t", " ", " ", "　", "\u0085"]) + toks[i] + rng.choice(["", " ", " "])
    elif op == "hash":
        i = rng.randrange(len(line) + 1)
        return line[:i] + rng.choice(["#", " # ", "##"]) + line[i:]
    elif op == "case":
        i = rng.randrange(len(toks))
        toks[i] = toks[i].lower()
    return ",".join(toks)


def soup(rng, nl=True):
    n = rng.randint(0, 14)
    seps = [",", ", ", " ,", "#", " ", ":", "", ",,"] + (["\n", "\r\n", "\n\n"] if nl else [])
    s = ""
    for _ in range(n):
        s += rng.choice(VOCAB) + rng.choice(seps)
    return s.replace("\x00", "")


def clean_line(s):
    """single-line inputs must not contain line breaks (the line parsers receive one line of the file)"""
    return s.replace("\n", " ").replace("\r", " ")


def corrupt_file(rng, text):
    lines = text.split("\n")
    for _ in range(rng.randint(1, 3)):
        op = rng.choice(["line", "dropline", "dupline", "shuffle", "insert", "truncate", "bom", "crlf", "lens", "soupline"])
        if op == "line" and lines:
            i = rng.randrange(len(lines))
            lines[i] = corrupt_line(rng, lines[i])
        elif op == "dropline" and lines:
            del lines[rng.randrange(len(lines))]
        elif op == "dupline" and lines:
            i = rng.randrange(len(lines))
            lines.insert(i, lines[i])
        elif op == "shuffle":
            rng.shuffle(lines)
        elif op == "insert":
            lines.insert(rng.randrange(len(lines) + 1), rng.choice(["", "# c", "vector, tipo", "#META x", "#META : ", "#CTE_", "DEMANDA, ACS, 1",
                                                                   "DEMANDA, VEN, 1, 2", "1, SALIDA, NEPB, 1", "x", "AUX", "1, AUX", "#MET", "#"]))
        elif op == "truncate":
            t = "\n".join(lines)
            return t[:rng.randrange(len(t) + 1)]
        elif op == "bom":
            lines[0:0] = []
            return "﻿" + "\n".join(lines)
        elif op == "crlf":
            return "\r\n".join(lines)
        elif op == "lens" and lines:
            i = rng.randrange(len(lines))
            lines[i] = lines[i] + ", 1.5"
        elif op == "soupline":
            lines.insert(rng.randrange(len(lines) + 1), soup(rng, nl=False))
    return "\n".join(lines)


def valid_soup_file(rng):
    """a valid components file made of random lines of every kind that share very few system ids, in random order:
    every accessor of a component kind meets every other kind under the same id"""
    n = rng.choice([1, 2, 3])
    ids = rng.sample([0, 1, 2, 7], rng.randint(1, 2))
    val = lambda: ", ".join(gen.fmt(gen.dy(rng, 64, 64 * 100)) for _ in range(n))
    lines = []
    srv = lambda: rng.choice(["ACS", "ACS", "ACS", "CAL", "REF", "VEN", "ILU"])
    for _ in range(rng.randint(4, 12)):
        i = rng.choice(ids)
        k = rng.random()
        if k < 0.4:
            lines.append("%d, CONSUMO, %s, %s, %s" % (i, rng.choice([srv(), srv(), "NEPB", "COGEN"]),
                                                     rng.choice(["BIOMASA", "BIOMASADENSIFICADA", "GASNATURAL", "ELECTRICIDAD", "EAMBIENTE", "TERMOSOLAR", "RED1", "GASOLEO"]), val()))
        elif k < 0.6:
            lines.append("%d, PRODUCCION, %s, %s" % (i, rng.choice(["EL_INSITU", "EL_COGEN", "TERMOSOLAR", "EAMBIENTE"]), val()))
        elif k < 0.85:
            lines.append("%d, SALIDA, %s, %s" % (i, srv(), val()))
        else:
            lines.append("%d, AUX, %s" % (i, val()))
    if rng.random() < 0.85:
        lines.append("DEMANDA, ACS, %s" % val())
    rng.shuffle(lines)
    return "\n".join(lines) + "\n"


def dhw_shared_id_file(rng):
    """a valid file around one DHW system id that carries every kind of component (consumption of several carriers,
    production, output, auxiliary), in random order: the DHW indicator walks all of them with kind-specific accessors"""
    n = rng.choice([1, 2, 12])
    val = lambda: ", ".join(gen.fmt(gen.dy(rng, 64, 64 * 100)) for _ in range(n))
    N = rng.choice([0, 1, 5])
    M = rng.choice([N, N, 9])
    lines = ["%d, CONSUMO, ACS, %s, %s" % (N, rng.choice(["BIOMASA", "BIOMASADENSIFICADA"]), val())]
    if rng.random() < 0.8:
        lines.append("%d, CONSUMO, ACS, %s, %s" % (M, rng.choice(["GASNATURAL", "GASOLEO", "ELECTRICIDAD", "RED1", "EAMBIENTE"]), val()))
    if rng.random() < 0.8:
        lines.append("%d, SALIDA, ACS, %s" % (N, val()))
    if rng.random() < 0.7:
        lines.append("%d, PRODUCCION, %s, %s" % (N, rng.choice(["EL_INSITU", "EL_COGEN", "TERMOSOLAR", "EAMBIENTE"]), val()))
    if rng.random() < 0.4:
        lines.append("%d, AUX, %s" % (N, val()))
    if rng.random() < 0.5:
        lines.append("%d, CONSUMO, %s, %s, %s" % (N, rng.choice(["CAL", "ILU", "NEPB", "COGEN"]), rng.choice(["ELECTRICIDAD", "BIOMASA", "GASNATURAL"]), val()))
    if rng.random() < 0.4:
        lines.append("%d, SALIDA, CAL, %s" % (N, val()))
    if rng.random() < 0.9:
        lines.append("DEMANDA, ACS, %s" % val())
    rng.shuffle(lines)
    return "\n".join(lines) + "\n"
