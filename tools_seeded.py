#!/usr/bin/env python3
"""Seeded-change workflow (not part of MANIFEST).

  tools_seeded.py verify <wt> <id>          confirm in the scratch worktree: suite passes with the change, demo fails with / passes without
  tools_seeded.py keep <wt> <id> <prop> "<needs>"   copy patch + demo + meta.json to /verif/seeded/<id>/
  tools_seeded.py run <id> <prop> [<prop>...]       apply to /repo, run the quick checks, undo, record outcome in meta.json
"""
import json, os, shutil, subprocess, sys, glob

HERE = os.path.dirname(os.path.abspath(__file__))
ENV = dict(os.environ, CARGO_NET_OFFLINE="true")


def sh(cmd, cwd=None, timeout=1800):
    p = subprocess.run(cmd, shell=True, cwd=cwd, capture_output=True, text=True, env=ENV, timeout=timeout)
    return p.returncode, p.stdout + p.stderr


def verify(wt, sid):
    out = {}
    rc, d = sh("git diff -- src", wt)
    md = open(os.path.join(wt, "mutant.diff")).read()
    out["diff_matches"] = d.strip() == md.strip()
    if not out["diff_matches"]:
        # restore the worktree to exactly the recorded patch
        sh("git checkout -- src && git apply mutant.diff", wt)
        rc, d = sh("git diff -- src", wt)
        out["diff_restored"] = d.strip() == md.strip()
    demo = [os.path.basename(f)[:-3] for f in glob.glob(os.path.join(wt, "tests", "demo_*.rs"))]
    out["demo"] = demo
    rc, t = sh("cargo test --workspace --offline --no-fail-fast 2>&1 | grep -E '^test result|^test .* FAILED|error'", wt)
    out["suite_with_change"] = t.strip().splitlines()
    # demo must be the only failing target
    rc1, t1 = sh("cargo test --offline --test %s 2>&1 | grep -q 'test result: ok'" % demo[0], wt)
    out["demo_passes_with_change"] = (rc1 == 0)
    sh("git apply -R mutant.diff", wt)
    rc2, t2 = sh("cargo test --offline --test %s 2>&1 | grep -q 'test result: ok'" % demo[0], wt)
    out["demo_passes_without_change"] = (rc2 == 0)
    sh("git apply mutant.diff", wt)
    print(json.dumps(out, indent=1))
    return out


def keep(wt, sid, prop, needs):
    d = os.path.join(HERE, "seeded", sid)
    os.makedirs(d, exist_ok=True)
    shutil.copy(os.path.join(wt, "mutant.diff"), os.path.join(d, "patch.diff"))
    for f in glob.glob(os.path.join(wt, "tests", "demo_*.rs")):
        shutil.copy(f, d)
    if os.path.exists(os.path.join(wt, "MUTANT.md")):
        shutil.copy(os.path.join(wt, "MUTANT.md"), os.path.join(d, "MUTANT.md"))
    meta = {"id": sid, "breaks_property": prop, "needs_to_manifest": needs,
            "origin": "fresh sub-agent given only the property text and a scratch worktree",
            "confirmed": "suite (90 tests + doctest) passes with the change; demo fails with it and passes without (tools_seeded.py verify)",
            "runs": []}
    json.dump(meta, open(os.path.join(d, "meta.json"), "w"), indent=1)


def run(sid, props):
    d = os.path.join(HERE, "seeded", sid)
    meta = json.load(open(os.path.join(d, "meta.json")))
    rc, st = sh("git status --short", "/repo")
    assert st.strip() == "", "/repo not clean: " + st
    rc, o = sh("git apply %s" % os.path.join(d, "patch.diff"), "/repo")
    assert rc == 0, o
    # the evidence files of /verif describe runs on the unchanged tree: keep them aside while the change is applied
    ev_dir = os.path.join(HERE, "evidence")
    ev_bak = os.path.join(HERE, ".cache", "evidence_before_seeded")
    shutil.rmtree(ev_bak, ignore_errors=True)
    shutil.copytree(ev_dir, ev_bak)
    try:
        for p in props:
            rc, o = sh("python3 vp.py check %s --tier quick" % p, HERE, timeout=3000)
            lines = [l for l in o.splitlines() if l.startswith(("VIOLATION", "KNOWN-FINDING"))]
            rec = {"check": p, "exit": rc, "lines": lines[:4]}
            for l in lines:
                if l.startswith("VIOLATION") and "replay=" in l:
                    rp = l.split("replay=")[1].split()[0]
                    try:
                        j = json.load(open(rp))
                        rec["what"] = j.get("what") or str(j.get("no_longer_checks", ""))[:300]
                    except Exception:
                        pass
                    break
            meta["runs"].append(rec)
            print(json.dumps(rec))
    finally:
        sh("git checkout -- .", "/repo")
        rc, st = sh("git status --short", "/repo")
        print("repo restored:", st.strip() == "")
        for f in os.listdir(ev_bak):
            shutil.copy(os.path.join(ev_bak, f), os.path.join(ev_dir, f))
    json.dump(meta, open(os.path.join(d, "meta.json"), "w"), indent=1)


if __name__ == "__main__":
    if sys.argv[1] == "verify":
        verify(sys.argv[2], sys.argv[3])
    elif sys.argv[1] == "keep":
        keep(sys.argv[2], sys.argv[3], sys.argv[4], sys.argv[5])
    elif sys.argv[1] == "run":
        run(sys.argv[2], sys.argv[3:])
